// E-math (C19, C20): sqrt (online, exact squares), exp2 and <numbers> constants (logged, judged offline).
#pragma once
#include "harness/c11.h"  // (deep / deepval for multi-limb storage)

#include <cnl/all.h>
#include <numbers>

namespace c19 {
using namespace vf;
using c01::deep;
using c01::deepval;
using c01::RT;

// check r = floor(sqrt(x)) for rep values (both as X)
inline std::string judge_sqrt(X const& x, X const& r)
{
    if (r.neg) return "negative_root";
    X r1 = r + X::from_u(1);
    if (r * r > x) return "root_too_large";
    if (r1 * r1 <= x) return "root_too_small";
    return "";
}

template<class T, class MK, class RUN>
void sweep(Tally& t, MK&& values, RUN&& run)
{
    (void)values;
    (void)run;
}

// built-in integer types
template<class T>
void sqrt_int(char const* desc)
{
    if (!kernel_selected(desc)) return;
    Tally t(desc);
    Rng rng(mix(env_seed(), hash_str(desc)));
    auto one = [&](T x, bool distinct) {
        if (t.closed) { ++t.notrun; return; }
        if (x < 0) { ++t.ood; return; }
        X got;
        arm_timer(200);
        Outcome o = guarded([&] { got = X::of(cnl::sqrt(x)); });
        arm_timer(0);
        std::string v = o.kind == VALUE ? judge_sqrt(X::of(x), got) : kind_name(o.kind);
        X rr = got * got;
        bool nt = distinct && (rr == X::of(x) || (got + X::from_u(1)) * (got + X::from_u(1)) == X::of(x) + X::from_u(1) || is_boundary(x));
        if (v.empty()) {
            t.held(o, nt);
            t.sample(nt, [&] { return istr(x); }, [&] { return "floor(sqrt)"; }, [&] { return got.str(); });
        } else
            t.violation(v, o, istr(x), "floor(sqrt(x))", outcome_str(o, got.str()), nt);
    };
    constexpr int w = width_of<T>;
    if constexpr (w <= 16) {
        t.exhaustive = true;
        for (long x = 0; x <= (long)tmax<T>(); ++x) one((T)x, true);
    } else {
        for (T x : lattice<T>()) one(x, true);
        if (w == 32 && env_long("VERIF_EXH32", 0)) {
            t.exhaustive = true;
            for (uint64_t x = 0; x <= (uint64_t)tmax<T>(); ++x) one((T)x, false);
        } else {
            long n = env_long("VERIF_N", 200000);
            // the top of the range, perfect squares and their neighbours, random
            for (long d = 0; d < n; ++d) one((T)(tmax<T>() - (T)d), false);
            for (long i = 0; i < n && !t.closed; ++i) {
                u128 k = rng.next128() >> (128 - w / 2 + (int)rng.below(w / 2));
                u128 sq = k * k;
                if (sq <= (u128)tmax<T>()) {
                    one((T)sq, false);
                    if (sq) one((T)(sq - 1), false);
                    if (sq < (u128)tmax<T>()) one((T)(sq + 1), false);
                }
                one(rand_val<T>(rng), false);
            }
        }
    }
    t.emit();
}

// any integer-like CNL type (wide_integer of odd/even digit counts, signed/unsigned, single- and multi-word; rounding / overflow wrappers):
// r^2 <= x < (r+1)^2
template<class W>
void sqrt_type(char const* desc)
{
    if (!kernel_selected(desc)) return;
    Tally t(desc);
    Rng rng(mix(env_seed(), hash_str(desc)));
    std::vector<X> vals;
    constexpr int D = cnl::digits_v<W>;
    X const hi = c11::deepval(std::numeric_limits<W>::max());
    for (int d = 0; d < 4; ++d) vals.push_back(X::from_i(d));
    for (int k = 1; k < D && k < 255; ++k)
        for (int d = -1; d <= 1; ++d) { X v = xpow2((unsigned)k) + X::from_i(d); if (v <= hi) vals.push_back(v); }
    size_t nd = vals.size();
    for (long i = 0; i < env_long("VERIF_N", 20000) / 10; ++i) {
        X v;
        for (int w = 0; w < 4; ++w) v.m[w] = rng.next();
        int bits = 1 + (int)rng.below((uint64_t)std::min(D, 255));
        v = shr_mag(v, 256 - bits);
        if (v <= hi) vals.push_back(v);
    }
    // the upper half of the range, where the first trial bit matters
    for (long d = 0; d < 1500; ++d) { X v = hi - X::from_i(d); if (!v.neg) vals.push_back(v); }
    for (int i = 0; i < 1500; ++i) {
        X v = hi - tdiv(hi, X::from_u(2 + rng.below(7)));
        v = v - X::from_u(rng.below(1000000));
        if (!v.neg) vals.push_back(v);
    }
    for (size_t i = 0; i < vals.size() && !t.closed; ++i) {
        X const& x = vals[i];
        if (x.neg) { ++t.ood; continue; }
        X got;
        arm_timer(500);
        Outcome o = guarded([&] { got = c11::deepval(cnl::sqrt(c11::deep<W>(x))); });
        arm_timer(0);
        std::string v = o.kind == VALUE ? judge_sqrt(x, got) : kind_name(o.kind);
        bool nt = i < nd || x >= tdiv(hi, X::from_u(2));
        if (v.empty()) {
            t.held(o, nt);
            t.sample(nt, [&] { return x.str(); }, [&] { return std::string("floor(sqrt(x))"); }, [&] { return got.str(); });
        } else
            t.violation(v, o, x.str(), "floor(sqrt(x))", outcome_str(o, got.str()), nt);
    }
    t.emit();
}

// elastic_integer<D,N>: result must fit (D+1)/2 digits
template<int D, class N>
void sqrt_elastic(char const* desc)
{
    if (!kernel_selected(desc)) return;
    using E = cnl::elastic_integer<D, N>;
    Tally t(desc);
    Rng rng(mix(env_seed(), hash_str(desc)));
    size_t nd;
    auto vals = RT<E>::values(rng, nd, env_long("VERIF_N", 20000) / 10, 16);
    for (long d = 0; d < 2000; ++d) { X v = RT<E>::hi() - X::from_i(d); if (!v.neg) vals.push_back(v); }
    for (size_t i = 0; i < vals.size() && !t.closed; ++i) {
        X const& x = vals[i];
        if (x.neg) { ++t.ood; continue; }
        X got;
        int rd = 0;
        arm_timer(200);
        Outcome o = guarded([&] {
            auto r = cnl::sqrt(deep<E>(x));
            rd = cnl::digits_v<decltype(r)>;
            got = deepval(r);
        });
        arm_timer(0);
        std::string v = o.kind == VALUE ? judge_sqrt(x, got) : kind_name(o.kind);
        if (v.empty() && (rd != (D + 1) / 2 || got >= xpow2((unsigned)rd))) v = "result_exceeds_halved_digits";
        bool nt = i < nd;
        if (v.empty()) {
            t.held(o, nt);
            t.sample(nt, [&] { return x.str(); }, [&] { return "floor(sqrt) in " + std::to_string((D + 1) / 2) + " digits"; }, [&] { return got.str(); });
        } else
            t.violation(v, o, x.str(), "floor(sqrt(x)) within (D+1)/2 digits", outcome_str(o, got.str()) + " digits=" + std::to_string(rd), nt);
    }
    t.emit();
}

// scaled_integer<Rep, power<E>> with even E: r at exponent E/2 with r^2 <= x < (r+ulp)^2  <=>  on reps: floor(sqrt(rep))
template<class Rep, int E, int Radix = 2>
void sqrt_scaled(char const* desc)
{
    if (!kernel_selected(desc)) return;
    using S = cnl::scaled_integer<Rep, cnl::power<E, Radix>>;
    Tally t(desc);
    Rng rng(mix(env_seed(), hash_str(desc)));
    size_t nd;
    auto vals = RT<Rep>::values(rng, nd, env_long("VERIF_N", 20000) / 4, 16);
    for (long d = 0; d < 3000 && width_of<Rep> > 16; ++d) vals.push_back(RT<Rep>::hi() - X::from_i(d));
    for (size_t i = 0; i < vals.size() && !t.closed; ++i) {
        X const& x = vals[i];
        if (x.neg) { ++t.ood; continue; }
        X got;
        int re = 0, rr = Radix;
        arm_timer(200);
        Outcome o = guarded([&] {
            auto r = cnl::sqrt(deep<S>(x));
            re = cnl::_impl::tag_of_t<decltype(r)>::exponent;
            rr = cnl::_impl::tag_of_t<decltype(r)>::radix;
            got = deepval(r);
        });
        arm_timer(0);
        std::string v = o.kind == VALUE ? judge_sqrt(x, got) : kind_name(o.kind);
        if (v.empty() && re * 2 != E) v = "result_exponent_not_half";
        if (v.empty() && rr != Radix && E != 0) v = "result_radix_differs";
        bool nt = i < nd;
        if (v.empty()) {
            t.held(o, nt);
            t.sample(nt, [&] { return x.str() + "*2^" + std::to_string(E); }, [&] { return std::string("floor(sqrt(rep))*2^") + std::to_string(E / 2); }, [&] { return got.str(); });
        } else
            t.violation(v, o, x.str() + "*2^" + std::to_string(E), "floor(sqrt(rep)) at exponent E/2", outcome_str(o, got.str()) + " e=" + std::to_string(re), nt);
    }
    t.emit();
}

// ---------------------------------------------------------------- C20 (logged)
//   X <kid> <rep_in> <KIND> <rep_out>
template<class Rep, int E>
void exp2_log(char const* desc, int kid)
{
    if (!kernel_selected(desc)) return;
    using S = cnl::scaled_integer<Rep, cnl::power<E>>;
    g.cur_kernel = desc;
    Rng rng(mix(env_seed(), hash_str(desc)));
    printf("{\"t\":\"kd\",\"id\":%d,\"k\":\"%s\",\"kind\":\"exp2\",\"exp\":%d,\"lo\":\"%s\",\"hi\":\"%s\",\"exhaustive\":%d}\n", kid, desc, E, RT<Rep>::lo().str().c_str(), RT<Rep>::hi().str().c_str(), (int)(width_of<Rep> <= 16));
    auto one = [&](Rep x) {
        X got;
        Outcome o = guarded([&] { got = deepval(cnl::exp2(cnl::_impl::from_rep<S>(x))); });
        printf("X %d %s %s %s\n", kid, istr(x).c_str(), kind_name(o.kind), o.kind == VALUE ? got.str().c_str() : "-");
    };
    if constexpr (width_of<Rep> <= 16) {
        for (long x = (long)tmin<Rep>(); x <= (long)tmax<Rep>(); ++x) one((Rep)x);
    } else {
        long stride = env_long("VERIF_EXP2_STRIDE", 1 << 17);
        uint64_t off = rng.below((uint64_t)stride);
        for (int64_t x = (int64_t)tmin<Rep>() + (int64_t)off; x <= (int64_t)tmax<Rep>(); x += stride) one((Rep)x);
        // dense windows around integral x and around the top of the representable results
        constexpr int F = -E;
        for (int k = -40; k <= 40; ++k)
            for (int d = -40; d <= 40; ++d) {
                i128 v = ((i128)k << (F > 0 ? F : 0)) + d;
                if (v >= (i128)tmin<Rep>() && v <= (i128)tmax<Rep>()) one((Rep)v);
            }
        for (int i = 0; i < 20000; ++i) one(rand_val<Rep>(rng));
    }
    fflush(stdout);
    g.cur_kernel = "";
}

//   K <kid> <constant-name> <rep>
enum Const { C_e, C_log2e, C_log10e, C_pi, C_inv_pi, C_inv_sqrtpi, C_ln2, C_ln10, C_sqrt2, C_sqrt3, C_inv_sqrt3, C_egamma, C_phi };
template<class Rep, int E, int Id>
void constant_log(char const* desc, int kid)
{
    if (!kernel_selected(desc)) return;
    using S = cnl::scaled_integer<Rep, cnl::power<E>>;
    g.cur_kernel = desc;
    printf("{\"t\":\"kd\",\"id\":%d,\"k\":\"%s\",\"kind\":\"const\",\"exp\":%d,\"digits\":%d,\"lo\":\"%s\",\"hi\":\"%s\"}\n", kid, desc, E, (int)cnl::digits_v<Rep>, RT<Rep>::lo().str().c_str(), RT<Rep>::hi().str().c_str());
#define VF_CONST(name) if constexpr (Id == C_##name) printf("K %d " #name " %s\n", kid, deepval(std::numbers::name##_v<S>).str().c_str());
    VF_CONST(e) VF_CONST(log2e) VF_CONST(log10e) VF_CONST(pi) VF_CONST(inv_pi) VF_CONST(inv_sqrtpi) VF_CONST(ln2) VF_CONST(ln10) VF_CONST(sqrt2) VF_CONST(sqrt3) VF_CONST(inv_sqrt3) VF_CONST(egamma) VF_CONST(phi)
#undef VF_CONST
    fflush(stdout);
    g.cur_kernel = "";
}
}  // namespace c19
