// E-round (C08, C09): division and narrowing conversion under a rounding mode vs exactly rounded results.
#pragma once
#include "harness/c01.h"

#include <cnl/rounding_integer.h>
#include <cnl/overflow_integer.h>
#include <cnl/wide_integer.h>
#include <cnl/_impl/rounding.h>
#include <cmath>

namespace c08 {
using namespace vf;
using c01::deep;
using c01::deepval;
using c01::fits;
using c01::promoted_t;
using c01::RT;
using c01::xipow;

struct Nat { using tag = cnl::native_rounding_tag; static constexpr int id = 0; };
struct Nea { using tag = cnl::nearest_rounding_tag; static constexpr int id = 1; };
struct Tie { using tag = cnl::tie_to_pos_inf_rounding_tag; static constexpr int id = 2; };
struct Flo { using tag = cnl::neg_inf_rounding_tag; static constexpr int id = 3; };
inline char const* modename(int id)
{
    static char const* n[] = {"native(trunc)", "nearest(ties away)", "tie_to_pos_inf", "neg_inf(floor)"};
    return n[id];
}

// exact num/den rounded by mode (den != 0)
inline X round_q(X const& num, X const& den, int mode)
{
    X q, r;
    X::divmod(num, den, q, r);  // q truncated toward zero, r has the sign of num
    if (r.zero()) return q;
    bool neg = num.neg != den.neg;  // sign of the exact quotient
    X two_r = r + r;
    two_r.neg = false;
    X aden = den;
    aden.neg = false;
    int c = cmp(two_r, aden);  // |frac| vs 1/2
    switch (mode) {
    case 0: return q;
    case 1: return c >= 0 ? (neg ? q - X::from_u(1) : q + X::from_u(1)) : q;                 // nearest, ties away from zero
    case 2: return neg ? (c > 0 ? q - X::from_u(1) : q) : (c >= 0 ? q + X::from_u(1) : q);  // nearest, ties toward +inf
    default: return neg ? q - X::from_u(1) : q;                                              // floor
    }
}

// ---------------------------------------------------------------- C08: division (and the other operators) under a rounding tag
enum Entry { E_WRAPPER, E_DIVIDE_FN };
template<class M, class L, class R, int EntryPoint>
void rdiv(char const* desc)
{
    if (!kernel_selected(desc)) return;
    using Tag = typename M::tag;
    using Res = decltype(L{} / R{1});
    Tally t(desc);
    Rng rng(mix(env_seed(), hash_str(desc)));
    bool const small = width_of<L> <= 8 && width_of<R> <= 8;
    t.exhaustive = small;
    auto one = [&](L a, R b, bool distinct) {
        if (t.closed) { ++t.notrun; return; }
        if (b == 0) { ++t.ood; return; }
        X xa = X::of(a), xb = X::of(b);
        // mixed signedness: only operand values representable in the common type
        if (!fits<Res>(xa) || !fits<Res>(xb)) { ++t.ood; return; }
        X want = round_q(xa, xb, M::id);
        if (!fits<Res>(want) || !fits<Res>(tdiv(xa, xb))) { ++t.ood; return; }
        X got;
        bool type_ok = true;
        Outcome o = guarded([&] {
            if constexpr (EntryPoint == E_WRAPPER) {
                auto r = cnl::_impl::from_rep<cnl::rounding_integer<L, Tag>>(a) / cnl::_impl::from_rep<cnl::rounding_integer<R, Tag>>(b);
                type_ok = std::is_same_v<decltype(r), cnl::rounding_integer<Res, Tag>>;
                got = X::of(cnl::_impl::to_rep(r));
            } else {
                auto r = cnl::_impl::divide<Tag, Tag, L, R>{}(a, b);
                type_ok = std::is_same_v<decltype(r), Res>;
                got = X::of(r);
            }
        });
        X q, r;
        X::divmod(xa, xb, q, r);
        X two_r = r + r;
        two_r.neg = false;
        X ab = xb;
        ab.neg = false;
        bool tie = !r.zero() && two_r == ab;
        bool nt = distinct && (tie || r.zero() || is_boundary(a) || is_boundary(b));
        if (distinct && tie) t.classes[(xa.neg != xb.neg) ? "tie_negative" : "tie_positive"]++;
        auto in = [&] { return istr(a) + " / " + istr(b) + " [" + modename(M::id) + "]"; };
        if (o.kind == VALUE && got == want && type_ok) {
            t.held(o, nt);
            t.sample(nt && tie, in, [&] { return want.str(); }, [&] { return got.str(); });
        } else
            t.violation(o.kind == VALUE ? (type_ok ? "wrong_quotient" : "result_type") : kind_name(o.kind), o, in(), want.str(), outcome_str(o, got.str()), nt);
    };
    if (small) {
        for (long a = (long)tmin<L>(); a <= (long)tmax<L>(); ++a)
            for (long b = (long)tmin<R>(); b <= (long)tmax<R>(); ++b) one((L)a, (R)b, true);
    } else {
        auto as = values_for<L>();
        auto bs = values_for<R>();
        for (R b : {(R)7, (R)10, (R)100, (R)6}) bs.push_back(b);
        long stride = env_long("VERIF_LATTICE_STRIDE", 1);
        for (size_t i = 0; i < as.size(); ++i)
            for (size_t j = (stride > 1 ? (i + env_seed()) % stride : 0); j < bs.size(); j += stride) one(as[i], bs[j], true);
        // ties and near ties: a = k*b + b/2 (+-1)
        long n = env_long("VERIF_N", 20000);
        for (long i = 0; i < n && !t.closed; ++i) {
            R b = rand_val<R>(rng);
            if (b == 0) continue;
            X xb = X::of(b);
            X half = tdiv(xb, X::from_i(2));
            X k = X::of(rand_val<L>(rng));
            if (i & 1) k = tdiv(k, xb.zero() ? X::from_u(1) : xb);
            X base = k * xb + half;
            for (int d = -1; d <= 1; ++d) {
                X a = base + X::from_i(d);
                if (a >= xmin<L>() && a <= xmax<L>()) one(c01::from_x<L>(a), b, false);
                X a2 = -a;
                if (a2 >= xmin<L>() && a2 <= xmax<L>()) one(c01::from_x<L>(a2), b, false);
            }
            one(rand_val<L>(rng), b, false);
        }
    }
    t.emit();
}

// division of rounding_integer over class-type representations (elastic_integer, wide_integer, overflow_integer<elastic>): same
// oracle; the quotient type is whatever CNL deduces and must be able to hold the rounded quotient (else out of domain)
template<class M, class LR, class RR>
void rdiv_class(char const* desc)
{
    if (!kernel_selected(desc)) return;
    using Tag = typename M::tag;
    using WL = cnl::rounding_integer<LR, Tag>;
    using WR = cnl::rounding_integer<RR, Tag>;
    using Q = decltype(std::declval<WL>() / std::declval<WR>());
    Tally t(desc);
    Rng rng(mix(env_seed(), hash_str(desc)));
    size_t na, nb;
    auto as = RT<LR>::values(rng, na, env_long("VERIF_NRAND", 300), 16);
    auto bs = RT<RR>::values(rng, nb, 40, 12);
    for (int b : {7, 10, 100, 6, -7, -3, -2, 3, 2}) {
        X xb = X::from_i(b);
        if (xb >= RT<RR>::lo() && xb <= RT<RR>::hi()) bs.push_back(xb);
    }
    X const qlo = deepval(std::numeric_limits<Q>::lowest()), qhi = deepval(std::numeric_limits<Q>::max());
    auto one = [&](X const& xa, X const& xb, bool distinct) {
        if (t.closed) { ++t.notrun; return; }
        if (xb.zero()) { ++t.ood; return; }
        X want = round_q(xa, xb, M::id);
        if (want < qlo || want > qhi) { ++t.ood; return; }
        X got;
        Outcome o = guarded([&] {
            WL a = deep<WL>(xa);
            WR b = deep<WR>(xb);
            got = deepval(a / b);
        });
        X q, r;
        X::divmod(xa, xb, q, r);
        X two_r = r + r;
        two_r.neg = false;
        X ab = xb;
        ab.neg = false;
        bool tie = !r.zero() && two_r == ab;
        bool nt = distinct && (tie || r.zero() || xb.neg || xa.neg);
        if (distinct && tie) t.classes[(xa.neg != xb.neg) ? "tie_negative" : "tie_positive"]++;
        if (!r.zero()) t.classes[std::string("inexact:dividend") + (xa.neg ? "-" : "+") + ":divisor" + (xb.neg ? "-" : "+")]++;
        auto in = [&] { return xa.str() + " / " + xb.str() + " [" + modename(M::id) + "]"; };
        if (o.kind == VALUE && got == want) {
            t.held(o, nt);
            t.sample(nt && tie, in, [&] { return want.str(); }, [&] { return got.str(); });
        } else
            t.violation(o.kind == VALUE ? "wrong_quotient" : kind_name(o.kind), o, in(), want.str(), outcome_str(o, got.str()), nt);
    };
    for (size_t i = 0; i < as.size(); ++i)
        for (size_t j = (i * 7) % 3; j < bs.size(); j += 3) one(as[i], bs[j], i < na && j < nb);
    // ties and near ties: a = k*b + b/2 (+-1), all sign quadrants
    long n = env_long("VERIF_N", 20000) / 4;
    for (long i = 0; i < n && !t.closed; ++i) {
        X xb = bs[rng.below(bs.size())];
        if (xb.zero()) continue;
        X half = tdiv(xb, X::from_i(2));
        X k = as[rng.below(as.size())];
        if (i & 1) k = tdiv(k, xb);
        X base = k * xb + half;
        for (int d = -1; d <= 1; ++d) {
            X a = base + X::from_i(d);
            if (a >= RT<LR>::lo() && a <= RT<LR>::hi()) one(a, xb, false);
            X a2 = -a;
            if (a2 >= RT<LR>::lo() && a2 <= RT<LR>::hi()) one(a2, xb, false);
        }
    }
    t.emit();
}

// all other operators under a rounding tag behave exactly like the built-in ones
template<class M, class L, class R>
void rother(char const* desc)
{
    if (!kernel_selected(desc)) return;
    using Tag = typename M::tag;
    Tally t(desc);
    Rng rng(mix(env_seed(), hash_str(desc)));
    auto as = values_for<L>();
    auto bs = values_for<R>();
    for (L a : as)
        for (R b : bs) {
            if (t.closed) break;
            using WL = cnl::rounding_integer<L, Tag>;
            using WR = cnl::rounding_integer<R, Tag>;
            // reference: built-in expressions, evaluated only where they are defined
            using PA = decltype(a + b);
            X xa = X::of(a), xb = X::of(b);
            struct C { char const* name; bool defined; X want; X got; bool ok; };
            C cs[8] = {};
            int nc = 0;
            auto def = [&](char const* nm, bool d, X w) { cs[nc].name = nm; cs[nc].defined = d; cs[nc].want = w; ++nc; };
            bool mixed_ok = fits<PA>(xa) && fits<PA>(xb);
            def("+", mixed_ok && fits<PA>(xa + xb), xa + xb);
            def("-", mixed_ok && fits<PA>(xa - xb), xa - xb);
            def("*", mixed_ok && fits<PA>(xa * xb), xa * xb);
            def("%", mixed_ok && !xb.zero() && fits<PA>(tdiv(xa, xb)), xb.zero() ? X() : trem(xa, xb));
            def("<", mixed_ok, X::from_i(xa < xb));
            def("==", mixed_ok, X::from_i(xa == xb));
            def("neg", fits<promoted_t<L>>(-xa), -xa);
            Outcome o = guarded([&] {
                WL wa = cnl::_impl::from_rep<WL>(a);
                WR wb = cnl::_impl::from_rep<WR>(b);
                if (cs[0].defined) cs[0].got = X::of(cnl::_impl::to_rep(wa + wb));
                if (cs[1].defined) cs[1].got = X::of(cnl::_impl::to_rep(wa - wb));
                if (cs[2].defined) cs[2].got = X::of(cnl::_impl::to_rep(wa * wb));
                if (cs[3].defined) cs[3].got = X::of(cnl::_impl::to_rep(wa % wb));
                if (cs[4].defined) cs[4].got = X::from_i(wa < wb);
                if (cs[5].defined) cs[5].got = X::from_i(wa == wb);
                if (cs[6].defined) cs[6].got = X::of(cnl::_impl::to_rep(-wa));
            });
            bool all = o.kind == VALUE;
            int bad = -1;
            for (int i = 0; i < nc && all; ++i)
                if (cs[i].defined && cs[i].got != cs[i].want) { all = false; bad = i; }
            bool nt = is_boundary(a) || is_boundary(b);
            auto in = [&] { return istr(a) + " , " + istr(b); };
            if (all) {
                t.held(o, nt);
                t.sample(nt, in, [&] { return std::string("built-in results"); }, [&] { return std::string("same"); });
            } else
                t.violation(o.kind == VALUE ? std::string("differs_from_builtin:") + cs[bad].name : kind_name(o.kind), o, in(), bad >= 0 ? cs[bad].want.str() : "", outcome_str(o, bad >= 0 ? cs[bad].got.str() : ""), nt);
        }
    t.emit();
}

// ---------------------------------------------------------------- C09: narrowing conversions under a rounding mode
// scaled -> scaled.  Route 0: cnl::convert<DestTag, Dest, SrcTag>;  Route 1: static_cast between scaled_integer<rounding_integer<Rep,Tag>, power<E>>
template<class M, class SR, int SE, class DR, int DE, int Route, int Radix = 2>
void rconv(char const* desc)
{
    auto shl = [](X const& v, int k) { return v * c01::xipow(Radix, k); };  // units of the finer exponent
    if (!kernel_selected(desc)) return;
    using Tag = typename M::tag;
    Tally t(desc);
    Rng rng(mix(env_seed(), hash_str(desc)));
    size_t na;
    auto as = RT<SR>::values(rng, na, env_long("VERIF_NRAND", 1000), 16);
    t.exhaustive = na == as.size();
    if (!t.exhaustive && DE > SE) {
        // ties and near ties at the destination resolution: rs = k*2^s + 2^(s-1) (+-1)
        int s = DE - SE;
        if (s < 100)
            for (int i = 0; i < 300; ++i) {
                X k = X::of(rand_val<SR>(rng));
                k = shr_mag(k, (unsigned)std::min(s + (int)(i % 3), 200));
                X const halfunit = tdiv(shl(X::from_u(1), s), X::from_u(2));  // (radix 10: 5*10^(s-1); odd radixes have no exact tie)
                X base = shl(k, s) + halfunit;
                for (int d = -1; d <= 1; ++d) {
                    X a = base + X::from_i(d);
                    if (k.neg) a = shl(k, s) - halfunit + X::from_i(d);
                    if (a >= RT<SR>::lo() && a <= RT<SR>::hi()) as.push_back(a);
                }
            }
        for (int d = 0; d < 6; ++d) { as.push_back(RT<SR>::hi() - X::from_i(d)); as.push_back(RT<SR>::lo() + X::from_i(d)); }
    }
    for (size_t i = 0; i < as.size() && !t.closed; ++i) {
        X const& rs = as[i];
        X num = rs, den = X::from_u(1);
        if (SE >= DE) num = shl(num, SE - DE); else den = shl(den, DE - SE);
        X want = round_q(num, den, M::id);
        if (want < RT<DR>::lo() || want > RT<DR>::hi()) { ++t.ood; continue; }
        X got;
        Outcome o = guarded([&] {
            if constexpr (Route == 0) {
                using S = cnl::scaled_integer<SR, cnl::power<SE, Radix>>;
                using D = cnl::scaled_integer<DR, cnl::power<DE, Radix>>;
                S s = deep<S>(rs);
                auto d = cnl::convert<Tag, D>{}(s);
                got = deepval(d);
            } else {
                using S = cnl::scaled_integer<cnl::rounding_integer<SR, Tag>, cnl::power<SE, Radix>>;
                using D = cnl::scaled_integer<cnl::rounding_integer<DR, Tag>, cnl::power<DE, Radix>>;
                S s = deep<S>(rs);
                // Route 1: static_cast between the wrapped types; Route 2: the convert<> entry point on the same wrapped types
                if constexpr (Route == 2) { auto d = cnl::convert<Tag, D>{}(s); got = deepval(d); }
                else { D d = static_cast<D>(s); got = deepval(d); }
            }
        });
        X q, r;
        X::divmod(num, den, q, r);
        X two_r = r + r;
        two_r.neg = false;
        bool tie = !r.zero() && two_r == den;
        bool nt = i < na ? (tie || rs == RT<SR>::lo() || rs == RT<SR>::hi() || rs.mag128() <= 3 || !r.zero()) : false;
        if (tie) t.classes[rs.neg ? "tie_negative" : "tie_positive"]++;
        if (r.zero()) t.classes["lossless"]++;
        auto in = [&] { return rs.str() + "*" + std::to_string(Radix) + "^" + std::to_string(SE) + " -> *" + std::to_string(Radix) + "^" + std::to_string(DE) + " [" + modename(M::id) + "]"; };
        if (o.kind == VALUE && got == want) {
            t.held(o, nt);
            t.sample(nt && tie, in, [&] { return want.str(); }, [&] { return got.str(); });
        } else {
            std::string cls = o.kind == VALUE ? "wrong_value" : kind_name(o.kind);
            // known defect classes of the scaled -> scaled rounding conversions (predicates on types and the source value only)
            if constexpr (c01::is_builtin<SR>) {
                using PS = promoted_t<SR>;
                constexpr int s = DE - SE;
                char const* how = (o.kind == VALUE) ? ":wrong_value" : (o.kind == UB_TRAP || o.kind == SIG) ? ":trap" : nullptr;
                if (how) {
                    if (s > 0) {
                        X const unit = s < 100 ? shl(X::from_u(1), s) : xpow2(255);   // Radix^s in units of the source
                        bool unit_unrep = Route != 1 ? unit > xmax<SR>() : unit > xmax<PS>();
                        X half = tdiv(unit, X::from_u(2));
                        X biased = M::id == 1 ? (rs.neg ? rs - half : rs + half) : M::id == 2 ? rs + half : rs;
                        bool bias_over = Route != 1 && (M::id == 1 || M::id == 2) && !fits<PS>(biased);
                        // defect models: signed promoted rep => the overflow is UB (trap); unsigned => the biased sum wraps
                        auto wrapw = [](X v, int w, bool sg) {
                            X mod = xpow2((unsigned)w), r = trem(v, mod);
                            if (r.neg) r = r + mod;
                            if (sg && r >= xpow2((unsigned)(w - 1))) r = r - mod;
                            return r;
                        };
                        bool model_ok = o.kind != VALUE ? is_sgn<PS>
                                                        : (!is_sgn<PS> && got == wrapw(tdiv(wrapw(biased, width_of<PS>, false), unit), width_of<DR>, is_sgn<DR>));
                        if (unit_unrep) cls = std::string("dest_unit_not_representable_in_source_rep") + how;
                        else if (bias_over && model_ok) cls = std::string("rounding_bias_overflows_source_rep") + how;
                        else if (Route == 2 && M::id == 1 && o.kind == VALUE && got == wrapw(round_q(biased, unit, 1), width_of<DR>, is_sgn<DR>))
                            // defect model (KF-C09-09): convert<nearest> adds the bias and then converts with the representation's own (nearest)
                            // rounding instead of truncating: the biased value is rounded a second time
                            cls = "convert_entry_point_on_rounding_rep_rounds_the_biased_value_again";
                    } else if (s < 0 && s > -200) {
                        X inter = shl(rs, (unsigned)(-s));
                        auto wrapw = [](X v, int w, bool sg) {
                            X mod = xpow2((unsigned)w), r = trem(v, mod);
                            if (r.neg) r = r + mod;
                            if (sg && r >= xpow2((unsigned)(w - 1))) r = r - mod;
                            return r;
                        };
                        bool model_ok = o.kind != VALUE ? is_sgn<PS> : (!is_sgn<PS> && got == wrapw(wrapw(inter, width_of<PS>, false), width_of<DR>, is_sgn<DR>));
                        if (!fits<PS>(inter) && model_ok) cls = std::string("widening_intermediate_overflows_source_rep") + how;
                    }
                }
            } else if constexpr (Route == 0 && DE > SE && Radix == 2) {
                // elastic source rep: same defect, the destination unit 2^s needs more digits than the source's elastic rep has
                char const* how = (o.kind == VALUE) ? ":wrong_value" : (o.kind == UB_TRAP || o.kind == SIG) ? ":trap" : nullptr;
                if (how && DE - SE >= (int)cnl::digits_v<SR>) cls = std::string("dest_unit_not_representable_in_source_rep") + how;
            }
            t.violation(cls, o, in(), want.str(), outcome_str(o, got.str()), nt);
        }
    }
    t.emit();
}

// floating -> integer / scaled_integer under a rounding tag.  Logged and judged offline (exact rationals).
//   line:  C <kid> <hexfloat> <rep|KIND>
template<class M, class F, class DR, int DE, int Route, int Radix = 2>
void rfloat(char const* desc, int kid)
{
    if (!kernel_selected(desc)) return;
    using Tag = typename M::tag;
    Rng rng(mix(env_seed(), hash_str(desc)));
    g.cur_kernel = desc;
    printf("{\"t\":\"kd\",\"id\":%d,\"k\":\"%s\",\"mode\":%d,\"exp\":%d,\"lo\":\"%s\",\"hi\":\"%s\",\"mant\":%d,\"radix\":%d}\n", kid, desc, M::id, DE, RT<DR>::lo().str().c_str(), RT<DR>::hi().str().c_str(),
           std::numeric_limits<F>::digits, Radix);
    std::vector<F> vs;
    long double unit = Radix == 2 ? ldexpl(1.0L, DE) : powl((long double)Radix, (long double)DE);
    auto around = [&](long double c) {
        F f = (F)c;
        if (!std::isfinite(f)) return;
        vs.push_back(f);
        F lo = f, hi = f;
        for (int i = 0; i < 2; ++i) {
            lo = std::nextafter(lo, -std::numeric_limits<F>::infinity());
            hi = std::nextafter(hi, std::numeric_limits<F>::infinity());
            vs.push_back(lo);
            vs.push_back(hi);
        }
    };
    // every tie k + 1/2 for k in the destination lattice, the bounds +- 1/2, large values where +0.5 is not representable
    for (auto k : lattice<DR>())
        for (long double off : {0.0L, 0.5L, -0.5L, 0.25L, -0.25L, 0.75L}) around(((long double)k + off) * unit);
    for (int e = std::numeric_limits<F>::digits - 3; e <= std::numeric_limits<F>::digits + 2; ++e)
        for (int d = -2; d <= 2; ++d) { around((ldexpl(1.0L, e) + d) * unit); around(-(ldexpl(1.0L, e) + d) * unit); }
    for (long double c : {0.49999997L, 0.5L, 1.5L, 2.5L, -0.5L, -1.5L, -2.5L, -0.3L, -1.7L, 0.3L, 1.7L, 0.0L}) around(c * unit);
    long n = env_long("VERIF_NFLOAT", 2000);
    for (long i = 0; i < n; ++i) {
        int ex = (int)rng.below(width_of<DR> + 2) - 2;
        long double m = 1.0L + (long double)(rng.next() >> 11) / 9007199254740992.0L;
        vs.push_back((F)(ldexpl((rng.next() & 1) ? m : -m, ex) * unit));
    }
    for (F f : vs) {
        if (!std::isfinite(f)) continue;
        X got;
        Outcome o = guarded([&] {
            if constexpr (Route == 0) {
                if constexpr (DE == 0) got = X::of(cnl::convert<Tag, DR>{}(f));
                else got = deepval(cnl::convert<Tag, cnl::scaled_integer<DR, cnl::power<DE, Radix>>>{}(f));
            } else {
                // construct a rounding_integer / scaled_integer<rounding_integer> from the floating value
                if constexpr (DE == 0) got = deepval(cnl::rounding_integer<DR, Tag>{f});
                else got = deepval(cnl::scaled_integer<cnl::rounding_integer<DR, Tag>, cnl::power<DE, Radix>>{f});
            }
        });
        if (o.kind == VALUE) printf("C %d %La %s\n", kid, (long double)f, got.str().c_str());
        else printf("C %d %La %s\n", kid, (long double)f, kind_name(o.kind));
    }
    fflush(stdout);
    g.cur_kernel = "";
}
}  // namespace c08
