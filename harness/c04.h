// E-scaled (C04): conversions between scaled_integer instantiations, built-in integers and floating point.
#pragma once
#include "harness/c01.h"

#include <cnl/_impl/num_traits/wrap.h>
#include <cmath>

namespace c04 {
using namespace vf;
using c01::deep;
using c01::deepval;
using c01::fits;
using c01::promoted_t;
using c01::RT;
using c01::xipow;

// Plain: 0 scaled->scaled, 1 scaled->plain integer DR, 2 plain integer SR->scaled
template<class SR, int SE, class DR, int DE, int SRadix, int DRadix, int Plain>
void conv(char const* desc)
{
    if (!kernel_selected(desc)) return;
    using S = std::conditional_t<Plain == 2, SR, cnl::scaled_integer<SR, cnl::power<SE, SRadix>>>;
    using D = std::conditional_t<Plain == 1, DR, cnl::scaled_integer<DR, cnl::power<DE, DRadix>>>;
    Tally t(desc);
    Rng rng(mix(env_seed(), hash_str(desc)));
    size_t na;
    auto as = RT<SR>::values(rng, na, env_long("VERIF_NRAND", 2000), 16);
    t.exhaustive = na == as.size();
    // destination-bound-directed sources: values whose conversion lands within 2 of a destination bound
    if (!t.exhaustive) {
        for (int side = 0; side < 2; ++side)
            for (int d = -2; d <= 2; ++d) {
                X target = (side ? RT<DR>::hi() : RT<DR>::lo()) + X::from_i(d);  // destination rep
                // source rep ~ target * DRadix^DE / SRadix^SE
                X num = target, den = X::from_u(1);
                if (DE >= 0) num = num * xipow(DRadix, DE); else den = den * xipow(DRadix, -DE);
                if (SE >= 0) den = den * xipow(SRadix, SE); else num = num * xipow(SRadix, -SE);
                if (num.m[3] >> 62 || den.m[3] >> 62 || den.zero()) continue;
                X q = tdiv(num, den);
                for (int e = -1; e <= 1; ++e) {
                    X s = q + X::from_i(e);
                    if (s >= RT<SR>::lo() && s <= RT<SR>::hi()) as.push_back(s);
                }
            }
    }
    for (size_t i = 0; i < as.size() && !t.closed; ++i) {
        X const& rs = as[i];
        // exact: v = rs * SRadix^SE ; want = trunc(v / DRadix^DE)
        X num = rs, den = X::from_u(1);
        if (SE >= 0) num = num * xipow(SRadix, SE); else den = den * xipow(SRadix, -SE);
        if (DE >= 0) den = den * xipow(DRadix, DE); else num = num * xipow(DRadix, -DE);
        X want = tdiv(num, den);
        if (want < RT<DR>::lo() || want > RT<DR>::hi()) { ++t.ood; continue; }
        X got, got2;
        Outcome o = guarded([&] {
            S s = deep<S>(rs);
            D d = static_cast<D>(s);
            got = deepval(d);
            D d2{s};
            got2 = deepval(d2);
        });
        bool nt = i < na && (rs.zero() || rs == RT<SR>::lo() || rs == RT<SR>::hi() || want == RT<DR>::lo() || want == RT<DR>::hi() || rs.mag128() <= 3 || !trem(num, den).zero());
        auto in = [&] { return rs.str() + "*" + std::to_string(SRadix) + "^" + std::to_string(SE) + " -> *" + std::to_string(DRadix) + "^" + std::to_string(DE); };
        if (o.kind == VALUE && got == want && got2 == want) {
            t.held(o, nt);
            if (!trem(num, den).zero()) t.classes[rs.neg ? "truncated_negative" : "truncated_positive"]++;
            else t.classes["exact"]++;
            t.sample(nt, in, [&] { return want.str(); }, [&] { return got.str(); });
        } else {
            std::string cls = o.kind == VALUE ? (got != got2 ? "cast_and_ctor_differ" : "wrong_value") : kind_name(o.kind);
            // known limitation (#18, documented in CNL's FAQ): the conversion scales in the *source's* (promoted) rep, so an
            // intermediate can overflow although the destination could hold the value.  The defect model below replays the
            // computation with typed arithmetic; a deviation is attributed only if the model predicts exactly what was seen.
            if constexpr (c01::is_builtin<SR> && c01::is_builtin<DR>) {
                using PS = promoted_t<SR>;
                bool ub = false, shift_ub = false;
                auto wrap_to = [](X v, int w, bool sg) {
                    X mod = xpow2((unsigned)w);
                    X r = trem(v, mod);
                    if (r.neg) r = r + mod;
                    if (sg && r >= xpow2((unsigned)(w - 1))) r = r - mod;
                    return r;
                };
                auto inP = [&](X v) {
                    if (fits<PS>(v)) return v;
                    if (is_sgn<PS>) { ub = true; return v; }
                    return wrap_to(v, width_of<PS>, false);
                };
                auto pv = [&](int k, int radix) {
                    X out = X::from_u(1);
                    if (radix == 2) {
                        if (k >= width_of<PS>) { shift_ub = true; return out; }
                        return wrap_to(xpow2((unsigned)k), width_of<PS>, is_sgn<PS>);
                    }
                    for (int i = 0; i < k; ++i) out = inP(out * X::from_u((unsigned)radix));
                    return out;
                };
                X v = rs;
                auto mul = [&](int k, int radix) { v = inP(v * pv(k, radix)); };
                auto div = [&](int k, int radix) {
                    X d = pv(k, radix);
                    if (d.zero()) { ub = true; return; }
                    v = tdiv(v, d);
                    if (!fits<PS>(v)) ub = true;
                };
                auto back = [&] { v = wrap_to(v, width_of<SR>, is_sgn<SR>); };
                if constexpr (SRadix == DRadix) {
                    if (SE > DE) mul(SE - DE, SRadix);
                    else if (SE < DE) div(DE - SE, SRadix);
                } else {
                    if (SE > 0) { mul(SE, SRadix); back(); }
                    if (DE < 0) { mul(-DE, DRadix); back(); }
                    if (SE < 0) { div(-SE, SRadix); back(); }
                    if (DE > 0) { div(DE, DRadix); back(); }
                }
                X pred = wrap_to(v, width_of<DR>, is_sgn<DR>);
                bool trapped = o.kind == UB_TRAP || o.kind == SIG;
#if defined(NDEBUG)
                // as-shipped build without UBSan: the same defects are real undefined behaviour and may yield any value
                if ((ub || shift_ub) && (o.kind == VALUE || trapped)) cls = "intermediate_overflows_source_rep:undefined_in_release_build";
                else
#endif
                if (shift_ub && trapped && !is_sgn<SR>) cls = "unsigned_scale_shift_ge_width";
                else if (ub && trapped) cls = "intermediate_overflows_source_rep:trap";
                else if (!ub && !shift_ub && o.kind == VALUE && got == pred && got2 == pred) cls = "intermediate_overflows_source_rep:wrapped";
            }
            t.violation(cls, o, in(), want.str(), outcome_str(o, got.str() + (got2 != got ? " ctor:" + got2.str() : "")), nt);
        }
    }
    t.emit();
}

// from_rep/to_rep and wrap/unwrap are exact inverses
template<class SR, int SE, int Radix>
void inverses(char const* desc)
{
    if (!kernel_selected(desc)) return;
    using S = cnl::scaled_integer<SR, cnl::power<SE, Radix>>;
    Tally t(desc);
    Rng rng(mix(env_seed(), hash_str(desc)));
    size_t na;
    auto as = RT<SR>::values(rng, na, 2000, 16);
    t.exhaustive = na == as.size();
    for (size_t i = 0; i < as.size() && !t.closed; ++i) {
        X const& rs = as[i];
        X a, b;
        bool same = false;
        Outcome o = guarded([&] {
            S s = deep<S>(rs);
            auto r = cnl::_impl::to_rep(s);
            S s2 = cnl::_impl::from_rep<S>(r);
            a = deepval(s2);
            auto u = cnl::unwrap(s);
            S s3 = cnl::wrap<S>(u);
            b = deepval(s3);
            same = (s2 == s) && (s3 == s) && X::of(u) == rs;
        });
        bool nt = i < na;
        if (o.kind == VALUE && a == rs && b == rs && same) {
            t.held(o, nt);
            t.sample(nt, [&] { return rs.str(); }, [&] { return rs.str(); }, [&] { return a.str(); });
        } else
            t.violation(o.kind == VALUE ? "not_inverse" : kind_name(o.kind), o, rs.str(), rs.str(), outcome_str(o, a.str() + "," + b.str()), nt);
    }
    t.emit();
}

// ---- floating point: outcomes are logged and judged offline with exact rationals (python Fractions)
// line formats:  T <kid> <rep> <hexfloat|TRAP|...>      scaled -> floating
//                F <kid> <hexfloat> <rep|TRAP|...>      floating -> scaled
//                R <kid> <rep> <rep2>                   scaled -> floating (wide enough) -> scaled
template<class SR, int SE, int Radix, class F>
void floats(char const* desc, int kid)
{
    if (!kernel_selected(desc)) return;
    using S = cnl::scaled_integer<SR, cnl::power<SE, Radix>>;
    Rng rng(mix(env_seed(), hash_str(desc)));
    g.cur_kernel = desc;
    printf("{\"t\":\"kd\",\"id\":%d,\"k\":\"%s\",\"digits\":%d,\"signed\":%d,\"mant\":%d,\"exp\":%d,\"radix\":%d,\"lo\":\"%s\",\"hi\":\"%s\"}\n", kid, desc,
           (int)cnl::digits_v<SR>, (int)is_sgn<SR>, std::numeric_limits<F>::digits, SE, Radix, RT<SR>::lo().str().c_str(), RT<SR>::hi().str().c_str());
    size_t na;
    auto as = RT<SR>::values(rng, na, env_long("VERIF_NRAND", 300), 8);
    constexpr int D = cnl::digits_v<SR>, M = std::numeric_limits<F>::digits;
    // ties for the significand: bits beyond the significand = 100..0 and its neighbours
    if constexpr (D > M) {
        for (int r = 0; r < 300; ++r) {
            int extra = D - M;
            u128 base = rng.next128() >> (128 - D);
            base &= ~((((u128)1) << extra) - 1);
            for (int dd = -1; dd <= 1; ++dd) {
                X v = X::from_u(base + (((u128)1) << (extra - 1))) + X::from_i(dd);
                if (v <= RT<SR>::hi()) as.push_back(v);
                if (is_sgn<SR> && -v >= RT<SR>::lo()) as.push_back(-v);
            }
        }
    }
    for (X const& rs : as) {
        F f = 0;
        X back;
        Outcome o = guarded([&] {
            S s = deep<S>(rs);
            f = static_cast<F>(s);
        });
        if (o.kind == VALUE) printf("T %d %s %La\n", kid, rs.str().c_str(), (long double)f);
        else printf("T %d %s %s\n", kid, rs.str().c_str(), kind_name(o.kind));
        if (o.kind == VALUE && M >= D && std::isfinite(f)) {
            Outcome o2 = guarded([&] { back = deepval(static_cast<S>(f)); });
            if (o2.kind == VALUE) printf("R %d %s %s\n", kid, rs.str().c_str(), back.str().c_str());
            else printf("R %d %s %s\n", kid, rs.str().c_str(), kind_name(o2.kind));
        }
    }
    // floating -> scaled: (rep + frac) * Radix^SE, both signs, plus integers and values next to the bounds
    long nf = env_long("VERIF_NFLOAT", 300);
    for (long r = 0; r < nf; ++r) {
        X rs = as[rng.below(as.size())];
        long double frac = (r % 5 == 0) ? 0.0L : (r % 5 == 1) ? 0.5L : (long double)(rng.next() >> 11) / 9007199254740992.0L;
        long double base = (long double)rs.mag128();
        if (rs.neg) base = -base;
        long double v = (base + (rs.neg ? -frac : frac)) * powl((long double)Radix, (long double)SE);
        F f = (F)v;
        if (!std::isfinite(f)) continue;
        X got;
        Outcome o = guarded([&] { got = deepval(static_cast<S>(f)); });
        if (o.kind == VALUE) printf("F %d %La %s\n", kid, (long double)f, got.str().c_str());
        else printf("F %d %La %s\n", kid, (long double)f, kind_name(o.kind));
    }
    fflush(stdout);
    g.cur_kernel = "";
}
}  // namespace c04
