// E-elastic (C05): elastic_integer / elastic_scaled_integer arithmetic vs exact results and the declared digit range.
#pragma once
#include "rt/rt.h"
#include "rt/x256.h"

#include <cnl/elastic_integer.h>
#include <cnl/elastic_scaled_integer.h>
#include "harness/c11.h"  // deep / deepval for multi-limb (wide_integer) storage

namespace c05 {
using namespace vf;

enum Op { ADD, SUB, MUL, DIV, MOD, LT, LE, GT, GE, EQ, NE, NEG, SHL, SHR, CMPINT, AND, OR, XOR };
inline char const* opname(int o)
{
    static char const* n[] = {"+", "-", "*", "/", "%", "<", "<=", ">", ">=", "==", "!=", "neg", "<<", ">>", "cmpint", "&", "|", "^"};
    return n[o];
}

// X value of a rep that is a built-in integer (up to 128 bit)
template<class Rep> X rep_x(Rep const& r)
{
    static_assert(std::is_integral_v<Rep> || is_int128<Rep>, "rep must be a built-in integer");
    return X::of(r);
}
template<class E> X value_of(E const& e) { return rep_x(cnl::_impl::to_rep(e)); }

// values of the declared range of an elastic_integer<D, N>: +-(2^D - 1) or [0, 2^D - 1]
template<int D, bool Signed>
std::vector<i128> range_values(Rng& rng, bool exhaustive, size_t& ndistinct, long nrand)
{
    std::vector<i128> v;
    i128 m = D >= 127 ? (i128)(~(u128)0 >> 1) : (((i128)1 << D) - 1);
    if (exhaustive) {
        for (i128 x = Signed ? -m : 0; x <= m; ++x) v.push_back(x);
        ndistinct = v.size();
        return v;
    }
    auto add = [&](i128 x) {
        if (x <= m && x >= (Signed ? -m : 0)) v.push_back(x);
    };
    for (int d = 0; d <= 3; ++d) {
        add(d); add(-d); add(m - d); add(-m + d); add(m / 2 + d); add(m / 2 - d); add(-(m / 2) + d); add(-(m / 2) - d);
    }
    for (int k = 1; k < D && k < 126; ++k)
        for (int d = -1; d <= 1; ++d) { add(((i128)1 << k) + d); add(-(((i128)1 << k) + d)); }
    add(m / 3); add(m / 10); add(-(m / 3));
    std::sort(v.begin(), v.end());
    v.erase(std::unique(v.begin(), v.end()), v.end());
    ndistinct = v.size();
    for (long i = 0; i < nrand; ++i) {
        u128 u = rng.next128();
        int bits = (int)rng.below(D + 1);
        u = bits ? (bits >= 128 ? u : (u & (((u128)1 << bits) - 1))) : 0;
        i128 x = (i128)(u & (u128)m);
        if (Signed && (rng.next() & 1)) x = -x;
        v.push_back(x);
    }
    return v;
}

template<class R>
struct Facts {
    int digits;
    bool sgn;
    X mx, lo;
};
template<class R>
Facts<R> facts()
{
    Facts<R> f;
    f.digits = cnl::digits_v<R>;
    f.sgn = cnl::numbers::signedness_v<R>;
    f.mx = value_of(std::numeric_limits<R>::max());
    f.lo = value_of(std::numeric_limits<R>::lowest());
    return f;
}
inline X pow2m1(int d) { return xpow2((unsigned)d) - X::from_u(1); }

// judge a value-producing result: exact, inside the range its own type declares, limits formula
template<class R>
std::string judge_value(X const& got, X const& want)
{
    Facts<R> f = facts<R>();
    if (f.digits <= 0) return "degenerate";
    X lim = pow2m1(f.digits);
    if (f.mx != lim || f.lo != (f.sgn ? -lim : X())) return "numeric_limits_formula";
    if (got != want) return "wrong_value";
    if (got > lim || got < (f.sgn ? -lim : X())) return "outside_declared_range";
    return "";
}

template<int Oper, int LD, class LN, int RD, class RN>
void binary(char const* desc)
{
    if (!kernel_selected(desc)) return;
    using A = cnl::elastic_integer<LD, LN>;
    using B = cnl::elastic_integer<RD, RN>;
    constexpr bool LS = is_sgn<LN>, RS = is_sgn<RN>;
    Tally t(desc);
    Rng rng(mix(env_seed(), hash_str(desc)));
    bool exh = LD + RD <= 16;
    t.exhaustive = exh;
    size_t na, nb;
    long nr = exh ? 0 : env_long("VERIF_NRAND", 40);
    auto as = range_values<LD, LS>(rng, exh, na, nr);
    auto bs = range_values<RD, RS>(rng, exh, nb, nr);
    for (size_t i = 0; i < as.size() && !t.closed; ++i)
        for (size_t j = 0; j < bs.size(); ++j) {
            i128 x = as[i], y = bs[j];
            if constexpr (Oper == DIV || Oper == MOD) if (y == 0) { ++t.ood; continue; }
            X xa = X::from_i(x), xb = X::from_i(y), want;
            bool bwant = false;
            if constexpr (Oper == ADD) want = xa + xb;
            else if constexpr (Oper == SUB) want = xa - xb;
            else if constexpr (Oper == MUL) want = xa * xb;
            else if constexpr (Oper == DIV) want = tdiv(xa, xb);
            else if constexpr (Oper == MOD) want = trem(xa, xb);
            else if constexpr (Oper == AND) want = X::from_i(x & y);
            else if constexpr (Oper == OR) want = X::from_i(x | y);
            else if constexpr (Oper == XOR) want = X::from_i(x ^ y);
            else if constexpr (Oper == LT) bwant = x < y;
            else if constexpr (Oper == LE) bwant = x <= y;
            else if constexpr (Oper == GT) bwant = x > y;
            else if constexpr (Oper == GE) bwant = x >= y;
            else if constexpr (Oper == EQ) bwant = x == y;
            else if constexpr (Oper == NE) bwant = x != y;
            X got;
            bool bgot = false;
            std::string verdict;
            Outcome o = guarded([&] {
                A a = cnl::_impl::from_rep<A>((cnl::_impl::rep_of_t<A>)x);
                B b = cnl::_impl::from_rep<B>((cnl::_impl::rep_of_t<B>)y);
                if constexpr (Oper <= MOD || Oper >= AND) {
                    auto r = [&] {
                        if constexpr (Oper == ADD) return a + b;
                        else if constexpr (Oper == SUB) return a - b;
                        else if constexpr (Oper == MUL) return a * b;
                        else if constexpr (Oper == DIV) return a / b;
                        else if constexpr (Oper == MOD) return a % b;
                        else if constexpr (Oper == AND) return a & b;
                        else if constexpr (Oper == OR) return a | b;
                        else return a ^ b;
                    }();
                    got = value_of(r);
                    verdict = judge_value<decltype(r)>(got, want);
                } else {
                    if constexpr (Oper == LT) bgot = a < b;
                    else if constexpr (Oper == LE) bgot = a <= b;
                    else if constexpr (Oper == GT) bgot = a > b;
                    else if constexpr (Oper == GE) bgot = a >= b;
                    else if constexpr (Oper == EQ) bgot = a == b;
                    else bgot = a != b;
                    // mutual consistency, independent of the oracle: exactly one of <, ==, > holds
                    int cnt = (a < b) + (a == b) + (a > b);
                    if (cnt != 1 || (a <= b) != ((a < b) || (a == b)) || (a >= b) != !(a < b) || (a != b) == (a == b)) verdict = "inconsistent_comparisons";
                    else if (bgot != bwant) verdict = "wrong_truth_value";
                }
            });
            bool distinct = i < na && j < nb;
            bool nt = distinct && (x == 0 || y == 0 || (x < 0 ? -x : x) >= ((i128)1 << (LD < 126 ? LD - 1 : 125)) || (y < 0 ? -y : y) >= ((i128)1 << (RD < 126 ? RD - 1 : 125)) || x == y || x == -y);
            auto in = [&] { return str(x) + " " + opname(Oper) + " " + str(y); };
            auto ex = [&] { return (Oper >= LT && Oper <= NE) ? std::string(bwant ? "true" : "false") : want.str(); };
            auto ob = [&] { return outcome_str(o, (Oper >= LT && Oper <= NE) ? std::string(bgot ? "true" : "false") : got.str()); };
            if (o.kind == VALUE && verdict.empty()) {
                t.held(o, nt);
                t.sample(nt, in, ex, ob);
            } else if (o.kind == VALUE && verdict == "degenerate") {
                ++t.ood;
            } else
                t.violation(o.kind == VALUE ? verdict : kind_name(o.kind), o, in(), ex(), ob(), nt);
        }
    t.emit();
}

// ---- elastic_integer on wide_integer storage (more than 127 digits): operands and results as X (<= 255 bits)
template<int D>
std::vector<X> wide_values(Rng& rng, size_t& ndistinct, long nrand)
{
    std::vector<X> v;
    X m = xpow2((unsigned)D) - X::from_u(1);
    auto add = [&](X const& x) { if (x <= m && x >= -m) v.push_back(x); };
    for (int d = 0; d <= 3; ++d) { add(X::from_i(d)); add(X::from_i(-d)); add(m - X::from_i(d)); add(-m + X::from_i(d)); add(tdiv(m, X::from_u(2)) + X::from_i(d)); }
    for (int k = 1; k < D; k += (k % 32 == 31 || k % 32 == 0 || k % 32 == 1 || k % 64 == 63 || k % 64 == 62) ? 1 : 5)
        for (int d = -1; d <= 1; ++d) { add(xpow2((unsigned)k) + X::from_i(d)); add(-(xpow2((unsigned)k) + X::from_i(d))); }
    // zero / all-ones limbs in the middle, value in the top limb (long-division and partial-product corner cases)
    for (int top : {D - 1, D - 8, D - 33})
        if (top > 70) {
            add(xpow2((unsigned)top) + X::from_u(0x1234567890abcdefull));
            add(xpow2((unsigned)top) * X::from_u(41) + X::from_u(5));
            add(xpow2((unsigned)top) - xpow2(64) + X::from_u(7));
            add(-(xpow2((unsigned)top) + X::from_u(3)));
        }
    std::sort(v.begin(), v.end(), [](X const& a, X const& b) { return a < b; });
    v.erase(std::unique(v.begin(), v.end()), v.end());
    ndistinct = v.size();
    for (long i = 0; i < nrand; ++i) {
        X x;
        int bits = 1 + (int)rng.below((uint64_t)D);
        for (int w = 0; w < 4; ++w) x.m[w] = rng.next();
        x = shr_mag(x, 256 - bits);
        if (rng.next() & 1) x = -x;
        add(x);
    }
    return v;
}

template<int Oper, int LD, int RD, class N>
void binary_wide(char const* desc)
{
    if (!kernel_selected(desc)) return;
    using A = cnl::elastic_integer<LD, N>;
    using B = cnl::elastic_integer<RD, N>;
    Tally t(desc);
    Rng rng(mix(env_seed(), hash_str(desc)));
    size_t na, nb;
    long nr = env_long("VERIF_NRAND", 40) * 3;
    auto as = wide_values<LD>(rng, na, nr);
    auto bs = wide_values<RD>(rng, nb, nr);
    for (size_t i = 0; i < as.size() && !t.closed; ++i)
        for (size_t j = 0; j < bs.size(); ++j) {
            X const& xa = as[i];
            X const& xb = bs[j];
            if ((Oper == DIV || Oper == MOD) && xb.zero()) { ++t.ood; continue; }
            x_overflowed = false;
            X want;
            bool bwant = false;
            if (Oper == ADD) want = xa + xb;
            else if (Oper == SUB) want = xa - xb;
            else if (Oper == MUL) want = xa * xb;
            else if (Oper == DIV) want = tdiv(xa, xb);
            else if (Oper == MOD) want = trem(xa, xb);
            else if (Oper == LT) bwant = xa < xb;
            else bwant = xa == xb;
            if (x_overflowed) { ++t.ood; continue; }
            X got;
            bool bgot = false;
            std::string verdict;
            Outcome o = guarded([&] {
                A a = c11::deep<A>(xa);
                B b = c11::deep<B>(xb);
                if constexpr (Oper <= MOD) {
                    auto r = [&] {
                        if constexpr (Oper == ADD) return a + b;
                        else if constexpr (Oper == SUB) return a - b;
                        else if constexpr (Oper == MUL) return a * b;
                        else if constexpr (Oper == DIV) return a / b;
                        else return a % b;
                    }();
                    using R = decltype(r);
                    got = c11::deepval(r);
                    int rd = cnl::digits_v<R>;
                    X lim = rd < 255 ? xpow2((unsigned)rd) - X::from_u(1) : xpow2(254);
                    if (got != want) verdict = "wrong_value";
                    else if (rd < 255 && (got > lim || got < -lim)) verdict = "outside_declared_range";
                } else {
                    bgot = Oper == LT ? a < b : a == b;
                    if (bgot != bwant) verdict = "wrong_truth_value";
                }
            });
            bool nt = i < na && j < nb;
            auto in = [&] { return xa.str() + " " + opname(Oper) + " " + xb.str(); };
            if (o.kind == VALUE && verdict.empty()) {
                t.held(o, nt);
                t.sample(nt, in, [&] { return Oper >= LT ? std::string(bwant ? "true" : "false") : want.str(); }, [&] { return Oper >= LT ? std::string(bgot ? "true" : "false") : got.str(); });
            } else
                t.violation(o.kind == VALUE ? verdict : kind_name(o.kind), o, in(), Oper >= LT ? std::string(bwant ? "true" : "false") : want.str(), outcome_str(o, got.str()), nt);
        }
    t.emit();
}

// unary minus and shifts by a compile-time constant
template<int Oper, int D, class N, int S>
void unary(char const* desc)
{
    if (!kernel_selected(desc)) return;
    using A = cnl::elastic_integer<D, N>;
    constexpr bool SG = is_sgn<N>;
    Tally t(desc);
    Rng rng(mix(env_seed(), hash_str(desc)));
    bool exh = D <= 16;
    t.exhaustive = exh;
    size_t na;
    auto as = range_values<D, SG>(rng, exh, na, exh ? 0 : 2000);
    for (size_t i = 0; i < as.size() && !t.closed; ++i) {
        i128 x = as[i];
        X xa = X::from_i(x), want;
        if constexpr (Oper == NEG) want = -xa;
        else if constexpr (Oper == SHL) want = shl(xa, S);
        else want = xa.neg ? -(shr_mag(xa + X::from_i(-(((i128)1 << S) - 1)) + X::from_i(0), S)) : shr_mag(xa, S);  // floor(x / 2^S)
        if constexpr (Oper == SHR) {
            // floor division for negatives: -ceil(|x| / 2^S)
            if (xa.neg) {
                X mag = -xa;
                X q = shr_mag(mag, S);
                if (!mag.low_bits_zero(S)) q = q + X::from_u(1);
                want = -q;
            }
        }
        X got;
        std::string verdict;
        int rdigits = 0;
        Outcome o = guarded([&] {
            A a = cnl::_impl::from_rep<A>((cnl::_impl::rep_of_t<A>)x);
            auto r = [&] {
                if constexpr (Oper == NEG) return -a;
                else if constexpr (Oper == SHL) return a << cnl::constant<S>{};
                else return a >> cnl::constant<S>{};
            }();
            rdigits = cnl::digits_v<decltype(r)>;
            if (rdigits > 0) {
                got = value_of(r);
                verdict = judge_value<decltype(r)>(got, want);
            } else
                verdict = "degenerate";
        });
        bool nt = i < na;
        auto in = [&] { return std::string(opname(Oper)) + (Oper == NEG ? "" : std::to_string(S)) + " of " + str(x); };
        if (o.kind == VALUE && verdict.empty()) {
            t.held(o, nt);
            t.sample(nt, in, [&] { return want.str(); }, [&] { return got.str(); });
        } else if (o.kind == VALUE && verdict == "degenerate")
            ++t.ood;
        else {
            std::string cls = o.kind == VALUE ? verdict : kind_name(o.kind);
            // known digit-rule defect: >> of a negative operand whose floor quotient is exactly -2^(D-S)
            if (Oper == SHR && cls == "outside_declared_range" && xa.neg && got == want && got == -xpow2((unsigned)rdigits)) cls = "shr_negative_floor_is_minus_2^digits";
            t.violation(cls, o, in(), want.str(), outcome_str(o, got.str()) + " in " + std::to_string(rdigits) + " digits", nt);
        }
    }
    t.emit();
}

// comparing with a built-in integer must give the same answer as comparing with that integer wrapped
template<int D, class N, class I>
void cmpint(char const* desc)
{
    if (!kernel_selected(desc)) return;
    using A = cnl::elastic_integer<D, N>;
    Tally t(desc);
    Rng rng(mix(env_seed(), hash_str(desc)));
    size_t na;
    auto as = range_values<D, is_sgn<N>>(rng, D <= 8, na, 30);
    auto ys = values_for<I>();
    for (size_t i = 0; i < as.size() && !t.closed; ++i)
        for (I y : ys) {
            i128 x = as[i];
            bool ok = false;
            int truth[6];
            Outcome o = guarded([&] {
                A a = cnl::_impl::from_rep<A>((cnl::_impl::rep_of_t<A>)x);
                auto w = cnl::elastic_integer<cnl::digits_v<I>, I>{y};
                truth[0] = a < y; truth[1] = a <= y; truth[2] = a > y; truth[3] = a >= y; truth[4] = a == y; truth[5] = a != y;
                ok = truth[0] == (a < w) && truth[1] == (a <= w) && truth[2] == (a > w) && truth[3] == (a >= w) && truth[4] == (a == w) && truth[5] == (a != w)
                  && (y < a) == (w < a) && (y == a) == (w == a) && (y > a) == (w > a);
            });
            // and by value
            X xa = X::from_i(x), xb = X::of(y);
            bool byval = truth[0] == (xa < xb) && truth[1] == (xa <= xb) && truth[2] == (xa > xb) && truth[3] == (xa >= xb) && truth[4] == (xa == xb) && truth[5] == (xa != xb);
            bool nt = i < na;
            auto in = [&] { return str(x) + " cmp " + istr(y); };
            if (o.kind == VALUE && ok && byval) {
                t.held(o, nt);
                t.sample(nt, in, [&] { return std::string("same as wrapped, by value"); }, [&] { return std::string("same"); });
            } else
                t.violation(o.kind != VALUE ? kind_name(o.kind) : !ok ? "builtin_vs_wrapped_differ" : "wrong_truth_value", o, in(), "by-value comparison", outcome_str(o, "lt=" + std::to_string(truth[0]) + " eq=" + std::to_string(truth[4])), nt);
        }
    t.emit();
}

// elastic_scaled_integer: +,-,*,/ and comparisons with exponents
template<int Oper, int LD, int LE_, class LN, int RD, int RE, class RN>
void scaled(char const* desc)
{
    if (!kernel_selected(desc)) return;
    using A = cnl::elastic_scaled_integer<LD, cnl::power<LE_>, LN>;
    using B = cnl::elastic_scaled_integer<RD, cnl::power<RE>, RN>;
    using AR = cnl::_impl::rep_of_t<A>;
    using BR = cnl::_impl::rep_of_t<B>;
    Tally t(desc);
    Rng rng(mix(env_seed(), hash_str(desc)));
    bool exh = LD + RD <= 14;
    t.exhaustive = exh;
    size_t na, nb;
    auto as = range_values<LD, is_sgn<LN>>(rng, exh, na, exh ? 0 : 30);
    auto bs = range_values<RD, is_sgn<RN>>(rng, exh, nb, exh ? 0 : 30);
    for (size_t i = 0; i < as.size() && !t.closed; ++i)
        for (size_t j = 0; j < bs.size(); ++j) {
            i128 x = as[i], y = bs[j];
            X xa = X::from_i(x), xb = X::from_i(y);
            // common exponent for exact value comparison
            constexpr int emin = LE_ < RE ? LE_ : RE;
            X va = shl(xa, LE_ - emin), vb = shl(xb, RE - emin);  // values in units of 2^emin
            X got, want;
            int rexp = 0, wexp = 0;
            bool bgot = false, bwant = false;
            std::string verdict;
            Outcome o = guarded([&] {
                A a = cnl::_impl::from_rep<A>(cnl::_impl::from_rep<AR>((cnl::_impl::rep_of_t<AR>)x));
                B b = cnl::_impl::from_rep<B>(cnl::_impl::from_rep<BR>((cnl::_impl::rep_of_t<BR>)y));
                if constexpr (Oper <= MUL) {
                    auto r = [&] {
                        if constexpr (Oper == ADD) return a + b;
                        else if constexpr (Oper == SUB) return a - b;
                        else return a * b;
                    }();
                    using R = decltype(r);
                    using RR = cnl::_impl::rep_of_t<R>;
                    rexp = cnl::_impl::tag_of_t<R>::exponent;
                    got = value_of(cnl::_impl::to_rep(r));
                    if constexpr (Oper == MUL) { wexp = LE_ + RE; want = xa * xb; }
                    else { wexp = emin; want = Oper == ADD ? va + vb : va - vb; }
                    if (rexp != wexp) verdict = "wrong_exponent";
                    else verdict = judge_value<RR>(got, want);
                } else {
                    if constexpr (Oper == LT) { bgot = a < b; bwant = va < vb; }
                    else if constexpr (Oper == LE) { bgot = a <= b; bwant = va <= vb; }
                    else if constexpr (Oper == GT) { bgot = a > b; bwant = va > vb; }
                    else if constexpr (Oper == GE) { bgot = a >= b; bwant = va >= vb; }
                    else if constexpr (Oper == EQ) { bgot = a == b; bwant = va == vb; }
                    else { bgot = a != b; bwant = va != vb; }
                    int cnt = (a < b) + (a == b) + (a > b);
                    if (cnt != 1) verdict = "inconsistent_comparisons";
                    else if (bgot != bwant) verdict = "wrong_truth_value";
                }
            });
            bool nt = i < na && j < nb && (x == 0 || y == 0 || va == vb || (x < 0 ? -x : x) >= ((i128)1 << (LD - 1)) || (y < 0 ? -y : y) >= ((i128)1 << (RD - 1)));
            auto in = [&] { return str(x) + "*2^" + std::to_string(LE_) + " " + opname(Oper) + " " + str(y) + "*2^" + std::to_string(RE); };
            auto ex = [&] { return Oper >= LT ? std::string(bwant ? "true" : "false") : want.str() + "*2^" + std::to_string(wexp); };
            auto ob = [&] { return outcome_str(o, Oper >= LT ? std::string(bgot ? "true" : "false") : got.str() + "*2^" + std::to_string(rexp)); };
            if (o.kind == VALUE && verdict.empty()) {
                t.held(o, nt);
                t.sample(nt, in, ex, ob);
            } else if (verdict == "degenerate")
                ++t.ood;
            else
                t.violation(o.kind == VALUE ? verdict : kind_name(o.kind), o, in(), ex(), ob(), nt);
        }
    t.emit();
}
}  // namespace c05
