// E-big: arithmetic on numbers whose representation is far wider than the 256-bit lock-step oracle (Karatsuba-sized
// multi-limb storage, several-hundred-limb Knuth divisions), logged as hex limb patterns and judged offline with python integers.
//   B <kid> <op> <a_hex> <b_hex> <KIND> <r_hex> <r_bits> <r_signed> <r_digits> <r_exp>
// Operands are written straight into the innermost limb array / built-in and results are read back from it, through any number
// of wrappers (scaled_integer, rounding_integer, overflow_integer, elastic_integer, wide_integer).
// The operand generator builds the value families that multi-limb algorithms are sensitive to: full-width random values, values
// whose limbs are drawn from an extremal alphabet (0, 1, B-1, B-2, B/2, B/2+-1: carry chains, Knuth D3 corrections and add-backs),
// and dividends constructed as q*v + r with r in {0, v-1, random}.
#pragma once
#include "rt/rt.h"

#include <cnl/all.h>

namespace big {
using namespace vf;
using Words = std::vector<uint64_t>;  // little-endian 64-bit words

// ---- little bignum (magnitudes) used only to construct operands
inline void trim(Words& a) { while (a.size() > 1 && a.back() == 0) a.pop_back(); }
inline Words mul(Words const& a, Words const& b)
{
    Words r(a.size() + b.size(), 0);
    for (size_t i = 0; i < a.size(); ++i) {
        u128 c = 0;
        for (size_t j = 0; j < b.size(); ++j) {
            u128 t = (u128)a[i] * b[j] + r[i + j] + c;
            r[i + j] = (uint64_t)t;
            c = t >> 64;
        }
        r[i + b.size()] += (uint64_t)c;
    }
    trim(r);
    return r;
}
inline Words add(Words const& a, Words const& b)
{
    Words r(std::max(a.size(), b.size()) + 1, 0);
    u128 c = 0;
    for (size_t i = 0; i < r.size(); ++i) {
        u128 t = c + (i < a.size() ? a[i] : 0) + (i < b.size() ? b[i] : 0);
        r[i] = (uint64_t)t;
        c = t >> 64;
    }
    trim(r);
    return r;
}
inline int cmp(Words a, Words b)
{
    trim(a), trim(b);
    if (a.size() != b.size()) return a.size() < b.size() ? -1 : 1;
    for (size_t i = a.size(); i-- > 0;)
        if (a[i] != b[i]) return a[i] < b[i] ? -1 : 1;
    return 0;
}
// a - b for a >= b
inline Words sub(Words const& a, Words const& b)
{
    Words r(a.size(), 0);
    unsigned br = 0;
    for (size_t i = 0; i < a.size(); ++i) {
        uint64_t bi = i < b.size() ? b[i] : 0;
        u128 t = (u128)a[i] - bi - br;
        r[i] = (uint64_t)t;
        br = (a[i] < bi || (a[i] == bi && br)) ? 1 : 0;
    }
    trim(r);
    return r;
}
inline Words shlw(Words const& a, int k)
{
    Words r(a.size() + (size_t)k / 64 + 1, 0);
    for (size_t i = 0; i < a.size(); ++i) {
        r[i + (size_t)k / 64] |= a[i] << (k % 64);
        if (k % 64) r[i + (size_t)k / 64 + 1] |= a[i] >> (64 - k % 64);
    }
    trim(r);
    return r;
}
inline int bitlen(Words a)
{
    trim(a);
    if (a.back() == 0) return 0;
    return (int)(a.size() - 1) * 64 + (64 - __builtin_clzll(a.back()));
}
inline void mask_to(Words& a, int bits)
{
    size_t nw = (size_t)(bits + 63) / 64;
    if (a.size() > nw) a.resize(nw);
    if (bits % 64 && a.size() == nw) a[nw - 1] &= (~0ull) >> (64 - bits % 64);
    if (a.empty()) a.push_back(0);
    trim(a);
}
// two's complement negation over the given storage width (in words)
inline Words negate(Words a, size_t nw)
{
    a.resize(nw, 0);
    uint64_t c = 1;
    for (auto& w : a) {
        w = ~w + c;
        c = (c && w == 0) ? 1 : 0;
    }
    return a;
}

// ---- deep access
template<class T>
struct leaf {
    using type = T;
};
template<class T>
requires cnl::_impl::is_wrapper<T>
struct leaf<T> {
    using type = typename leaf<cnl::_impl::rep_of_t<T>>::type;
};
template<class T> using leaf_t = typename leaf<T>::type;
template<class T> constexpr bool multiword = cnl::_impl::is_uintwide_v<leaf_t<T>>;

template<class T>
constexpr int limb_bits()
{
    if constexpr (multiword<T>) return std::numeric_limits<typename leaf_t<T>::limb_type>::digits;
    else return (int)sizeof(leaf_t<T>) * 8;
}
template<class T>
constexpr int storage_bits()
{
    if constexpr (multiword<T>) return (int)(leaf_t<T>::number_of_limbs * limb_bits<T>());
    else return (int)sizeof(leaf_t<T>) * 8;
}
template<class T>
auto const& leaf_of(T const& x)
{
    if constexpr (cnl::_impl::is_wrapper<T>) return leaf_of(cnl::_impl::to_rep(x));
    else return x;
}
template<class T>
T wrap_leaf(leaf_t<T> const& l)
{
    if constexpr (cnl::_impl::is_wrapper<T>) return cnl::_impl::from_rep<T>(wrap_leaf<cnl::_impl::rep_of_t<T>>(l));
    else return l;
}
template<class T>
std::string hex(T const& x)
{
    std::string s;
    char b[40];
    auto const& l = leaf_of(x);
    if constexpr (multiword<T>) {
        auto const& r = l.crepresentation();
        using L = typename leaf_t<T>::limb_type;
        for (size_t i = r.size(); i-- > 0;) {
            snprintf(b, sizeof b, "%0*llx", (int)sizeof(L) * 2, (unsigned long long)r[i]);
            s += b;
        }
    } else {
        u128 u = (u128)l;
        for (int i = (int)sizeof(leaf_t<T>) - 1; i >= 0; --i) {
            snprintf(b, sizeof b, "%02x", (unsigned)((u >> (8 * i)) & 0xff));
            s += b;
        }
    }
    return s;
}
// from a little-endian two's-complement word sequence (truncated / zero-extended to the storage)
template<class T>
T make(Words const& words)
{
    if constexpr (multiword<T>) {
        leaf_t<T> r{};
        using L = typename leaf_t<T>::limb_type;
        constexpr int lb = std::numeric_limits<L>::digits;
        auto& a = r.representation();
        for (size_t i = 0; i < a.size(); ++i) {
            size_t bit = i * lb;
            uint64_t w = bit / 64 < words.size() ? words[bit / 64] : 0;
            a[i] = (L)(w >> (bit % 64));
        }
        return wrap_leaf<T>(r);
    } else {
        u128 u = (words.size() > 0 ? (u128)words[0] : 0) | (words.size() > 1 ? (u128)words[1] << 64 : 0);
        return wrap_leaf<T>((leaf_t<T>)u);
    }
}
// does the representation widen by itself (an elastic_integer somewhere in the wrapper chain)?
template<class T> struct has_elastic : std::false_type {};
template<class R, class Tag> struct has_elastic<cnl::_impl::wrapper<R, Tag>> : has_elastic<R> {};
template<class R, int D, class N> struct has_elastic<cnl::_impl::wrapper<R, cnl::elastic_tag<D, N>>> : std::true_type {};
template<class T> struct exp_of { static constexpr int value = 0; };
template<class R, int E> struct exp_of<cnl::scaled_integer<R, cnl::power<E, 2>>> { static constexpr int value = E; };

// ---- operand families: magnitudes below 2^digits
struct Gen {
    Rng& rng;
    int digits;  // value digits of the type
    int lb;      // limb width of the storage (alphabet of the extremal family)
    uint64_t extremal_limb()
    {
        uint64_t B1 = lb == 64 ? ~0ull : ((1ull << lb) - 1);  // B-1
        uint64_t H = 1ull << (lb - 1);
        switch (rng.below(10)) {
        case 0: return 0;
        case 1: return 1;
        case 2: return B1;
        case 3: return B1 - 1;
        case 4: return H;
        case 5: return H - 1;
        case 6: return H + 1;
        case 7: return B1;
        case 8: return 0;
        default: return rng.next() & B1;
        }
    }
    Words limbs_to_words(std::vector<uint64_t> const& limbs)
    {
        Words w((limbs.size() * (size_t)lb + 63) / 64 + 1, 0);
        for (size_t i = 0; i < limbs.size(); ++i) {
            size_t bit = i * (size_t)lb;
            w[bit / 64] |= limbs[i] << (bit % 64);
            if (bit % 64 + (size_t)lb > 64) w[bit / 64 + 1] |= limbs[i] >> (64 - bit % 64);
        }
        trim(w);
        return w;
    }
    // a magnitude of at most `bits` bits (bits <= digits)
    Words random(int bits)
    {
        Words w((size_t)(bits + 63) / 64, 0);
        for (auto& x : w) x = rng.next();
        mask_to(w, bits);
        return w;
    }
    Words extremal(int bits)
    {
        std::vector<uint64_t> l((size_t)(bits + lb - 1) / (size_t)lb);
        for (auto& x : l) x = extremal_limb();
        Words w = limbs_to_words(l);
        mask_to(w, bits);
        return w;
    }
    Words pow2ish(int bits)
    {
        int k = bits <= 1 ? 0 : (int)rng.below((uint64_t)bits);
        Words w((size_t)k / 64 + 1, 0);
        w[(size_t)k / 64] = 1ull << (k % 64);
        switch (rng.below(3)) {
        case 0: break;
        case 1: w = sub(w, Words{1}); break;  // all ones below k
        default: if (k + 1 < bits) w = add(w, Words{1}); break;
        }
        mask_to(w, bits);
        return w;
    }
    int some_length(int maxbits)
    {
        // whole range, near the top, or a whole number of limbs
        switch (rng.below(4)) {
        case 0: return maxbits;
        case 1: return std::max(1, maxbits - (int)rng.below(3));
        case 2: return std::max(1, std::min(maxbits, lb * (1 + (int)rng.below((uint64_t)(maxbits / lb + 1)))));
        default: return 1 + (int)rng.below((uint64_t)maxbits);
        }
    }
    Words any(int maxbits)
    {
        int bits = some_length(maxbits);
        switch (rng.below(8)) {
        case 0: return pow2ish(bits);
        case 1:
        case 2:
        case 3: return extremal(bits);
        default: return random(bits);
        }
    }
};

struct Operand {
    Words mag;
    bool neg;
};
template<class T>
T inject(Operand const& o)
{
    size_t nw = (size_t)(storage_bits<T>() + 63) / 64;
    Words w = o.mag;
    w.resize(nw, 0);
    if (o.neg) w = negate(w, nw);
    return make<T>(w);
}

enum Op { ADD, SUB, MUL, DIV, MOD, LT, EQ, QUO };
inline char const* opname(Op o) { return o == ADD ? "+" : o == SUB ? "-" : o == MUL ? "*" : o == DIV ? "/" : o == MOD ? "%" : o == LT ? "<" : o == EQ ? "=" : "q"; }

template<class A, class B, class F>
void run_op(int kid, Op op, A const& a, B const& b, std::string const& ha, std::string const& hb, F&& f)
{
    using R = std::remove_cvref_t<decltype(f(a, b))>;
    R r{};
    Outcome o = guarded([&] { r = f(a, b); });
    if constexpr (std::is_same_v<R, bool>)
        printf("B %d %s %s %s %s %d 1 0 1 0\n", kid, opname(op), ha.c_str(), hb.c_str(), kind_name(o.kind), (int)r);
    else
        printf("B %d %s %s %s %s %s %d %d %d %d\n", kid, opname(op), ha.c_str(), hb.c_str(), kind_name(o.kind), o.kind == VALUE ? hex(r).c_str() : "-", storage_bits<R>(), (int)cnl::numbers::signedness_v<R>,
               (int)cnl::digits_v<R>, exp_of<R>::value);
}

// OPS: bit mask over Op; RM: rounding of '/' expected by the judge (0 truncating, 1 nearest with ties away from zero)
template<class A, class B, unsigned OPS, int RM = 0>
void binop(char const* desc, int kid)
{
    if (!kernel_selected(desc)) return;
    g.cur_kernel = desc;
    Rng rng(mix(env_seed(), hash_str(desc)));
    printf("{\"t\":\"kd\",\"id\":%d,\"k\":\"%s\",\"bits1\":%d,\"signed1\":%d,\"digits1\":%d,\"exp1\":%d,\"bits2\":%d,\"signed2\":%d,\"digits2\":%d,\"exp2\":%d,\"limb1\":%d,\"limb2\":%d,\"rm\":%d,\"fixed\":%d}\n", kid, desc, storage_bits<A>(),
           (int)cnl::numbers::signedness_v<A>, (int)cnl::digits_v<A>, exp_of<A>::value, storage_bits<B>(), (int)cnl::numbers::signedness_v<B>, (int)cnl::digits_v<B>, exp_of<B>::value, limb_bits<A>(), limb_bits<B>(), RM, (int)!(has_elastic<A>::value && has_elastic<B>::value));
    constexpr int DA = cnl::digits_v<A>, DB = cnl::digits_v<B>;
    Gen ga{rng, DA, std::min(64, limb_bits<A>())}, gb{rng, DB, std::min(64, limb_bits<B>())};  // (single-word __int128 storage: 64-bit alphabet)
    long pairs = env_long("VERIF_BIGPAIRS", 1500);
    constexpr auto has = [](Op o) { return (OPS >> (unsigned)o & 1u) != 0; };
    for (long p = 0; p < pairs; ++p) {
        Operand oa, ob;
        bool same_sign = false;
        int style = (int)(p % 4);
        if (style == 3 && (has(DIV) || has(MOD) || has(QUO)) && DA > 2) {
            // dividend constructed from a quotient and a divisor: a = q*v + r, r in {0, v-1, random below v}
            int vb = 1 + (int)rng.below((uint64_t)std::min(DB, DA - 1));
            Words v = gb.any(vb);
            if (bitlen(v) == 0) v = Words{1};
            int qb = std::max(1, DA - bitlen(v) - 1);
            Words q = ga.any(qb);
            Words r;
            switch (rng.below(3)) {
            case 0: r = Words{0}; break;
            case 1: r = sub(v, Words{1}); break;
            default: r = ga.random(std::max(1, bitlen(v) - 1)); break;
            }
            oa.mag = add(mul(q, v), r);
            if (bitlen(oa.mag) > DA) oa.mag = q;
            ob.mag = v;
        } else if (style == 2 && (has(LT) || has(EQ)) && exp_of<A>::value != exp_of<B>::value) {
            // comparisons across exponents: the finer operand is the coarser one aligned, exactly or off by one unit
            constexpr int gap = exp_of<A>::value < exp_of<B>::value ? exp_of<B>::value - exp_of<A>::value : exp_of<A>::value - exp_of<B>::value;
            constexpr bool a_finer = exp_of<A>::value < exp_of<B>::value;
            int room = (a_finer ? DA : DB) - gap;
            Gen& gc = a_finer ? gb : ga;
            Words coarse = room > 0 ? gc.any(std::min(room, a_finer ? DB : DA)) : Words{0};
            Words fine = shlw(coarse, gap);
            switch (rng.below(3)) {
            case 0: break;
            case 1: fine = add(fine, Words{1}); break;
            default: if (bitlen(fine) > 0) fine = sub(fine, Words{1}); break;
            }
            if (bitlen(fine) > (a_finer ? DA : DB)) fine = shlw(coarse, gap);
            if (room <= 0) fine = (a_finer ? ga : gb).any(a_finer ? DA : DB);
            (a_finer ? oa : ob).mag = fine;
            (a_finer ? ob : oa).mag = coarse;
            same_sign = true;
        } else {
            oa.mag = style == 0 ? ga.random(DA) : ga.any(DA);
            ob.mag = style == 0 ? gb.random(DB) : gb.any(DB);
        }
        oa.neg = cnl::numbers::signedness_v<A> && (rng.next() & 1) && bitlen(oa.mag) > 0;
        ob.neg = cnl::numbers::signedness_v<B> && (rng.next() & 1) && bitlen(ob.mag) > 0;
        if (same_sign && cnl::numbers::signedness_v<A> && cnl::numbers::signedness_v<B>) ob.neg = oa.neg && bitlen(ob.mag) > 0, oa.neg = oa.neg && bitlen(oa.mag) > 0;
        A a = inject<A>(oa);
        B b = inject<B>(ob);
        std::string ha = hex(a), hb = hex(b);
        if constexpr (has(ADD)) run_op(kid, ADD, a, b, ha, hb, [](A const& x, B const& y) { return x + y; });
        if constexpr (has(SUB)) run_op(kid, SUB, a, b, ha, hb, [](A const& x, B const& y) { return x - y; });
        if constexpr (has(MUL)) run_op(kid, MUL, a, b, ha, hb, [](A const& x, B const& y) { return x * y; });
        if (bitlen(ob.mag) > 0) {
            if constexpr (has(QUO)) run_op(kid, QUO, a, b, ha, hb, [](A const& x, B const& y) { return cnl::quotient(x, y); });
            if constexpr (has(DIV)) run_op(kid, DIV, a, b, ha, hb, [](A const& x, B const& y) { return x / y; });
            if constexpr (has(MOD)) run_op(kid, MOD, a, b, ha, hb, [](A const& x, B const& y) { return x % y; });
        }
        if constexpr (has(LT)) run_op(kid, LT, a, b, ha, hb, [](A const& x, B const& y) { return x < y; });
        if constexpr (has(EQ)) run_op(kid, EQ, a, b, ha, hb, [](A const& x, B const& y) { return x == y; });
    }
    fflush(stdout);
    g.cur_kernel = "";
}
}  // namespace big
