// E-fraction (C16, C17): fraction arithmetic/order/reduction/hash vs exact rationals; fraction from floating point.
#pragma once
#include "harness/c01.h"

#include <cnl/fraction.h>
#include <cmath>
#include <functional>
#include <unordered_map>

namespace c16 {
using namespace vf;
using c01::fits;
using c01::from_x;
using c01::promoted_t;

struct Q {  // exact rational n/d, d != 0
    X n, d;
};
inline int qcmp(Q const& a, Q const& b)
{
    // sign-correct cross multiplication
    X l = a.n * b.d, r = b.n * a.d;
    int c = cmp(l, r);
    return (a.d.neg != b.d.neg) ? -c : c;
}
inline X xgcd(X a, X b)
{
    a.neg = false;
    b.neg = false;
    while (!b.zero()) {
        X t = trem(a, b);
        a = b;
        b = t;
    }
    return a;
}

template<class T>
std::vector<T> comps(Rng& rng, bool small, size_t& nd)
{
    std::vector<T> v;
    if (small) {
        for (int i = -12; i <= 12; ++i)
            if (i >= 0 || is_sgn<T>) v.push_back((T)i);
        nd = v.size();
        return v;
    }
    for (T x : lattice<T>()) v.push_back(x);
    nd = v.size();
    for (int i = 0; i < 12; ++i) v.push_back(rand_val<T>(rng));
    return v;
}

// binary operators and comparisons on fraction<T> x fraction<T>
template<class T>
void binary(char const* desc, int mode /*0: components in [-12,12] exhaustively, 1: boundary lattice thinned*/)
{
    if (!kernel_selected(desc)) return;
    using F = cnl::fraction<T>;
    using P = promoted_t<T>;
    Tally t(desc);
    Rng rng(mix(env_seed(), hash_str(desc)));
    size_t nd;
    auto cs = comps<T>(rng, mode == 0, nd);
    t.exhaustive = mode == 0;
    if (mode == 1 && cs.size() > 40) {
        // thin the lattice: keep extremes and small values plus a seeded stride
        std::vector<T> k;
        for (size_t i = 0; i < cs.size(); ++i)
            if (i < 3 || i + 3 >= cs.size() || (X::of(cs[i]).mag128() <= 3) || (i + env_seed()) % 6 == 0) k.push_back(cs[i]);
        cs = k;
        nd = cs.size();
    }
    for (T an : cs)
        for (T ad : cs)
            for (T bn : cs)
                for (T bd : cs) {
                    if (t.closed) break;
                    if (ad == 0 || bd == 0) { ++t.ood; continue; }
                    X xan = X::of(an), xad = X::of(ad), xbn = X::of(bn), xbd = X::of(bd);
                    // domain: every cross product / sum the operators form fits the promoted component type
                    X p1 = xan * xbd, p2 = xbn * xad, p3 = xad * xbd, p4 = xan * xbn, p5 = xad * xbn;
                    if (!fits<P>(p1) || !fits<P>(p2) || !fits<P>(p3) || !fits<P>(p4) || !fits<P>(p5) || !fits<P>(p1 + p2) || !fits<P>(p1 - p2) || !fits<P>(-xan) || !fits<P>(-xad)) { ++t.ood; continue; }
                    Q a{xan, xad}, b{xbn, xbd};
                    Q sum{p1 + p2, p3}, dif{p1 - p2, p3}, pro{p4, p3}, quo{p1, p5};
                    int c = qcmp(a, b);
                    std::string bad;
                    Q got[5];
                    Outcome o = guarded([&] {
                        F fa{an, ad}, fb{bn, bd};
                        auto chk = [&](auto const& r, Q const& want, char const* nm, int slot) {
                            got[slot] = Q{X::of(r.numerator), X::of(r.denominator)};
                            if (got[slot].d.zero() || qcmp(got[slot], want) != 0) { if (bad.empty()) bad = nm; }
                        };
                        chk(fa + fb, sum, "+", 0);
                        chk(fa - fb, dif, "-", 1);
                        chk(fa * fb, pro, "*", 2);
                        if (bn != 0) chk(fa / fb, quo, "/", 3);
                        chk(-fa, Q{-xan, xad}, "neg", 4);
                        auto pl = +fa;
                        if (X::of(pl.numerator) != xan || X::of(pl.denominator) != xad) if (bad.empty()) bad = "unary+";
                        if ((fa == fb) != (c == 0)) { if (bad.empty()) bad = "=="; }
                        if ((fa != fb) != (c != 0)) { if (bad.empty()) bad = "!="; }
                        if ((fa < fb) != (c < 0)) { if (bad.empty()) bad = "<"; }
                        if ((fa > fb) != (c > 0)) { if (bad.empty()) bad = ">"; }
                        if ((fa <= fb) != (c <= 0)) { if (bad.empty()) bad = "<="; }
                        if ((fa >= fb) != (c >= 0)) { if (bad.empty()) bad = ">="; }
                    });
                    bool nt = ad < 0 || bd < 0 || c == 0 || an == 0 || bn == 0;
                    if (ad < 0 || bd < 0) t.classes[(ad < 0) != (bd < 0) ? "one_negative_denominator" : "both_negative_denominators"]++;
                    auto in = [&] { return istr(an) + "/" + istr(ad) + " , " + istr(bn) + "/" + istr(bd); };
                    if (o.kind == VALUE && bad.empty()) {
                        t.held(o, nt);
                        t.sample(nt, in, [&] { return std::string("exact rational results; order ") + (c < 0 ? "<" : c > 0 ? ">" : "=="); }, [&] { return std::string("same"); });
                    } else
                        t.violation(o.kind == VALUE ? "wrong:" + bad : kind_name(o.kind), o, in(), std::string("order ") + (c < 0 ? "<" : c > 0 ? ">" : "=="), outcome_str(o, bad), nt);
                }
    t.emit();
}

// fractions of different component types: fraction<N1,D1> op fraction<N2,D2>.  Domain: every operand of every product / sum the
// operators form is representable in the C++ type of that product / sum, and so is its exact value (no wrap, no sign conversion).
template<class N1, class D1, class N2, class D2>
void binary_mixed(char const* desc)
{
    if (!kernel_selected(desc)) return;
    using FA = cnl::fraction<N1, D1>;
    using FB = cnl::fraction<N2, D2>;
    Tally t(desc);
    Rng rng(mix(env_seed(), hash_str(desc)));
    auto thin = [&](auto tag, size_t keep) {
        using T = decltype(tag);
        size_t nd;
        auto cs = comps<T>(rng, false, nd);
        std::vector<T> k;
        for (size_t i = 0; i < cs.size(); ++i)
            if (i < 2 || i + 2 >= nd && i < nd || (X::of(cs[i]).mag128() <= 3) || (i * 2654435761u + (unsigned)env_seed()) % cs.size() < keep) k.push_back(cs[i]);
        for (long v : {7L, 3L, 1000L, 7000000001L, 2147483648L, 4294967295L, 65536L, -65537L, 46341L, 3037000500L})
            if (X::from_i(v) >= xmin<T>() && X::from_i(v) <= xmax<T>()) k.push_back((T)v);
        return k;
    };
    auto an_s = thin(N1{}, 10);
    auto bn_s = thin(N2{}, 10);
    auto ad_s = thin(D1{}, 6);
    auto bd_s = thin(D2{}, 6);
    using P1 = decltype(N1{} * D2{});   // lhs.numerator * rhs.denominator
    using P2 = decltype(N2{} * D1{});   // rhs.numerator * lhs.denominator
    using P3 = decltype(D1{} * D2{});
    using P4 = decltype(N1{} * N2{});
    using S = decltype(P1{} + P2{});
    auto both_fit = [](auto tag, X const& a, X const& b, X const& r) {
        using T = decltype(tag);
        return fits<T>(a) && fits<T>(b) && fits<T>(r);
    };
    for (N1 an : an_s)
        for (D1 ad : ad_s)
            for (N2 bn : bn_s)
                for (D2 bd : bd_s) {
                    if (t.closed) break;
                    if (ad == 0 || bd == 0) { ++t.ood; continue; }
                    X xan = X::of(an), xad = X::of(ad), xbn = X::of(bn), xbd = X::of(bd);
                    X p1 = xan * xbd, p2 = xbn * xad, p3 = xad * xbd, p4 = xan * xbn, p5 = xad * xbn;
                    bool dom = both_fit(P1{}, xan, xbd, p1) && both_fit(P2{}, xbn, xad, p2) && both_fit(P3{}, xad, xbd, p3) && both_fit(P4{}, xan, xbn, p4) && both_fit(P2{}, xad, xbn, p5)
                            && fits<S>(p1) && fits<S>(p2) && fits<S>(p1 + p2) && fits<S>(p1 - p2) && fits<S>(p2 - p1);
                    if (!dom) { ++t.ood; continue; }
                    Q a{xan, xad}, b{xbn, xbd};
                    Q sum{p1 + p2, p3}, dif{p1 - p2, p3}, pro{p4, p3}, quo{p1, p5};
                    int c = qcmp(a, b);
                    std::string bad;
                    Outcome o = guarded([&] {
                        FA fa{an, ad};
                        FB fb{bn, bd};
                        auto chk = [&](auto const& r, Q const& want, char const* nm) {
                            Q g{X::of(r.numerator), X::of(r.denominator)};
                            if (g.d.zero() || qcmp(g, want) != 0) { if (bad.empty()) bad = nm; }
                        };
                        chk(fa + fb, sum, "+");
                        chk(fa - fb, dif, "-");
                        chk(fa * fb, pro, "*");
                        if (bn != 0) chk(fa / fb, quo, "/");
                        if ((fa == fb) != (c == 0)) { if (bad.empty()) bad = "=="; }
                        if ((fa != fb) != (c != 0)) { if (bad.empty()) bad = "!="; }
                        if ((fa < fb) != (c < 0)) { if (bad.empty()) bad = "<"; }
                        if ((fa > fb) != (c > 0)) { if (bad.empty()) bad = ">"; }
                        if ((fa <= fb) != (c <= 0)) { if (bad.empty()) bad = "<="; }
                        if ((fa >= fb) != (c >= 0)) { if (bad.empty()) bad = ">="; }
                        // and the other way round
                        if ((fb < fa) != (c > 0)) { if (bad.empty()) bad = "<(swapped)"; }
                        if ((fb >= fa) != (c <= 0)) { if (bad.empty()) bad = ">=(swapped)"; }
                        chk(fb - fa, Q{p2 - p1, p3}, "-(swapped)");
                    });
                    bool nt = ad < 0 || bd < 0 || c == 0 || an == 0 || bn == 0 || p1.mag128() > 0x7fffffff || p2.mag128() > 0x7fffffff;
                    if (ad < 0 || bd < 0) t.classes[(ad < 0) != (bd < 0) ? "one_negative_denominator" : "both_negative_denominators"]++;
                    if (p1.mag128() > 0xffffffffull || p2.mag128() > 0xffffffffull) t.classes["cross_product_beyond_32_bits"]++;
                    auto in = [&] { return istr(an) + "/" + istr(ad) + " , " + istr(bn) + "/" + istr(bd); };
                    if (o.kind == VALUE && bad.empty()) {
                        t.held(o, nt);
                        t.sample(nt, in, [&] { return std::string("exact rational results; order ") + (c < 0 ? "<" : c > 0 ? ">" : "=="); }, [&] { return std::string("same"); });
                    } else
                        t.violation(o.kind == VALUE ? "wrong:" + bad : kind_name(o.kind), o, in(), std::string("order ") + (c < 0 ? "<" : c > 0 ? ">" : "=="), outcome_str(o, bad), nt);
                }
    t.emit();
}

// unary: reduce, canonical, hash grouping, conversion to floating point
template<class T, class TD = T>
void unary(char const* desc, int range /*0 => all 8-bit components*/)
{
    if (!kernel_selected(desc)) return;
    using F = cnl::fraction<T, TD>;
    Tally t(desc);
    Rng rng(mix(env_seed(), hash_str(desc)));
    std::vector<T> ns;
    std::vector<TD> ds;
    if (range == 0) {
        if constexpr (width_of<T> <= 8) ns = all_values<T>();
        if constexpr (width_of<TD> <= 8) ds = all_values<TD>();
        t.exhaustive = true;
    } else {
        for (int i = -range; i <= range; ++i) { if (i >= 0 || is_sgn<T>) ns.push_back((T)i); if (i >= 0 || is_sgn<TD>) ds.push_back((TD)i); }
        for (T x : lattice<T>()) if ((x & 3) == 1 || X::of(x).mag128() > 1000) { ns.push_back(x); }
        for (int k = 2; k < 40; k += 3) for (int i = -6; i <= 6; ++i) if (i) { if (i > 0 || is_sgn<TD>) ds.push_back((TD)(i * k)); if (i > 0 || is_sgn<T>) ns.push_back((T)(i * k)); }
    }
    std::map<std::pair<std::string, std::string>, size_t> hash_of_class;  // exact reduced value -> hash
    for (T n : ns)
        for (TD d : ds) {
            if (t.closed) break;
            if (d == 0) { ++t.ood; continue; }
            // domain of reduce/canonical/hash: components != most negative (precondition of std::gcd)
            if ((is_sgn<T> && n == tmin<T>()) || (is_sgn<TD> && d == tmin<TD>())) { ++t.ood; continue; }
            X xn = X::of(n), xd = X::of(d);
            X gg = xgcd(xn, xd);
            X rn = tdiv(xn, gg), rd = tdiv(xd, gg);  // lowest terms, signs as given
            X cn = rd.neg ? -rn : rn, cd = rd.neg ? -rd : rd;  // canonical
            std::string bad;
            size_t h = 0;
            long double fl = 0;
            X gn, gd, kn, kd;
            Outcome o = guarded([&] {
                F f{n, d};
                auto r = cnl::_impl::reduce(f);
                gn = X::of(r.numerator); gd = X::of(r.denominator);
                auto c = cnl::_impl::canonical(f);
                kn = X::of(c.numerator); kd = X::of(c.denominator);
                h = std::hash<F>{}(f);
                fl = (long double)static_cast<double>(f);
            });
            if (o.kind == VALUE) {
                // reduce: same value, lowest terms (either sign convention of the pair is accepted)
                if (gd.zero() || qcmp(Q{gn, gd}, Q{xn, xd}) != 0) bad = "reduce_changes_value";
                else if (!(xgcd(gn, gd) == X::from_u(1))) bad = "reduce_not_lowest_terms";
                if (!bad.empty() && bad[0] == 'r') {
                    // defect model (KF-C16-01): components of different signedness whose common type is unsigned: the gcd has that type and
                    // the negative component is converted to it (modulo 2^w) before the division
                    using CT = std::common_type_t<T, TD>;
                    if constexpr (is_sgn<T> != is_sgn<TD> && !is_sgn<CT>) {
                        X mod = xpow2((unsigned)width_of<CT>);
                        auto wrap = [&](X v) { X r = trem(v, mod); if (r.neg) r = r + mod; return r; };
                        if (!gg.zero() && gn == tdiv(wrap(xn), gg) && gd == tdiv(wrap(xd), gg)) bad = "reduce_mixed_signedness_divides_in_the_unsigned_common_type";
                    }
                }
                else if ((kn != cn || kd != cd) && fits<T>(cn) && fits<TD>(cd)) bad = "canonical_wrong";   // (judged when the canonical pair is representable in the component types)
                else if (fl != (long double)((double)n / (double)d)) bad = "to_floating_differs_from_n_over_d";
                else {
                    auto key = std::make_pair(cn.str(), cd.str());
                    auto it = hash_of_class.find(key);
                    if (it == hash_of_class.end()) hash_of_class[key] = h;
                    else if (it->second != h) bad = "equal_fractions_hash_differently";
                }
            }
            bool nt = d < 0 || n == 0 || !(gg == X::from_u(1));
            auto in = [&] { return istr(n) + "/" + istr(d); };
            if (o.kind == VALUE && bad.empty()) {
                t.held(o, nt);
                t.sample(nt, in, [&] { return "canonical " + cn.str() + "/" + cd.str(); }, [&] { return kn.str() + "/" + kd.str(); });
            } else
                t.violation(o.kind == VALUE ? bad : kind_name(o.kind), o, in(), "reduced " + rn.str() + "/" + rd.str() + " canonical " + cn.str() + "/" + cd.str(), outcome_str(o, gn.str() + "/" + gd.str() + " ; " + kn.str() + "/" + kd.str()), nt);
        }
    t.classes["hash_classes"] += (long)hash_of_class.size();
    t.emit();
}

// ---------------------------------------------------------------- C17: fraction from floating point (logged, judged offline)
//   G <kid> <hexfloat> <KIND> <num> <den> <ticks> <msg> <pc>
template<class T, class F>
void fromfloat(char const* desc, int kid, int route /*0 fraction<T>(x), 1 make_fraction<T>(x)*/)
{
    if (!kernel_selected(desc)) return;
    g.cur_kernel = desc;
    Rng rng(mix(env_seed(), hash_str(desc)));
    printf("{\"t\":\"kd\",\"id\":%d,\"k\":\"%s\",\"digits\":%d,\"mant\":%d,\"max\":\"%s\"}\n", kid, desc, (int)std::numeric_limits<T>::digits, (int)std::numeric_limits<F>::digits, X::of(tmax<T>()).str().c_str());
    std::vector<F> xs;
    long double mx = (long double)tmax<T>();
    // exponent x coarse mantissa lattice
    int elo = -std::numeric_limits<T>::digits - 8, ehi = std::numeric_limits<T>::digits;
    for (int e = elo; e <= ehi; ++e)
        for (int m = 0; m < 32; ++m) {
            long double v = ldexpl(1.0L + (long double)m / 32.0L, e);
            xs.push_back((F)v);
            if (m % 4 == 0) xs.push_back((F)-v);
        }
    // ratios of small integers, decimal fractions, integers, values next to the numerator limit
    for (int p = 0; p <= 40; ++p)
        for (int q = 1; q <= 40; ++q) { xs.push_back((F)((long double)p / q)); if ((p + q) % 5 == 0) xs.push_back((F)(-(long double)p / q)); }
    for (int k = 1; k < 2000; k += 7) { xs.push_back((F)(k / 10.0L)); xs.push_back((F)(k / 1000.0L)); xs.push_back((F)(1.0L / k)); xs.push_back((F)(k / 3.0L)); xs.push_back((F)k); }
    for (int q : {10000, 9973, 12345, 65536, 1000000}) { xs.push_back((F)(1.0L / q)); xs.push_back((F)(3.0L / q)); }
    for (int i = 0; i < 8; ++i) { F f = (F)mx; for (int j = 0; j < i; ++j) f = std::nextafter(f, (F)0); xs.push_back(f); xs.push_back(-f); xs.push_back(f / 2); xs.push_back((F)(mx / 3) - i); }
    for (int e : {-60, -40, -30, -20}) { xs.push_back((F)ldexpl(1.0L, e)); xs.push_back((F)ldexpl(0xd.6p0L, e)); }
    // values whose natural numerator sits on the component limit: (max + d) / q for small and large q, and 1 + 1/(max + d)
    for (int d = -2; d <= 2; ++d) {
        for (long q : {2L, 3L, 7L, 15L, 17L, 23L, 100L, 1021L, 65537L}) {
            if ((long double)q >= mx / 4) continue;
            xs.push_back((F)((mx + d) / q));
            if (d % 2 == 0) xs.push_back((F)(-(mx + d) / q));
        }
        xs.push_back((F)(1.0L + 1.0L / (mx + d)));
        xs.push_back((F)(3.0L + 2.0L / (mx + d)));
    }
    // large non-dyadic values (integer part up to max/2, decimal / thirds fractions): the search is stopped by the numerator limit
    for (long double scale = 2; scale < mx / 2; scale *= 3)
        for (long double r : {1.0L / 3, 0.004L, 0.1L, 0.7L, 0.0972L, 0.5218L, 0.875L + 1.0L / 4096}) {
            xs.push_back((F)(scale + r));
            xs.push_back((F)-(scale + r));
            xs.push_back((F)(scale * 1.37L + r));
        }
    size_t ndet = xs.size();  // everything above is deterministic (independent of VERIF_SEED)
    long n = env_long("VERIF_NFLOAT", 3000);
    for (long i = 0; i < n; ++i) {
        int e = (int)rng.below((uint64_t)(ehi - elo)) + elo;
        long double m = 1.0L + (long double)(rng.next() >> 11) / 9007199254740992.0L;
        if (i % 3 == 0) m = 1.0L + (long double)(rng.next() >> 54) / 1024.0L;
        xs.push_back((F)ldexpl((rng.next() & 1) ? m : -m, e));
    }
    for (size_t xi = 0; xi < xs.size(); ++xi) {
        F x = xs[xi];
        if (!std::isfinite(x) || fabsl((long double)x) > mx) continue;
        X num, den;
        g.tick_budget = 1000000;
        arm_timer(300);
        Outcome o = guarded([&] {
            if (route == 0) {
                cnl::fraction<T> f(x);
                num = X::of(f.numerator); den = X::of(f.denominator);
            } else {
                auto f = cnl::make_fraction<T>(x);
                num = X::of(f.numerator); den = X::of(f.denominator);
            }
        });
        arm_timer(0);
        long ticks = g.ticks;
        g.tick_budget = 0;
        char const* m = o.kind == CNL_ABORT ? (strstr(o.msg, "include/cnl/") ? strstr(o.msg, "include/cnl/") : o.msg) : "-";
        char mm[100];
        snprintf(mm, sizeof mm, "%.90s", m);
        for (char* c = mm; *c; ++c) if (*c == ' ') *c = '_';
        printf("%s %d %La %s %s %s %ld %s 0x%lx\n", xi < ndet ? "G" : "Gr", kid, (long double)x, kind_name(o.kind), num.str().c_str(), den.str().c_str(), ticks, mm, o.pc);
    }
    fflush(stdout);
    g.cur_kernel = "";
}
}  // namespace c16
