// E-wide (C10): wide_integer operations logged as hex limb patterns and judged offline with python big integers.
//   W <kid> <op> <a_hex> <b_hex|count|-> <KIND> <result_hex|bool|text>
// Values are injected by writing the limb array (representation()) and read back from crepresentation():
// neither goes through the conversion code under test.
#pragma once
#include "rt/rt.h"

#include <cnl/all.h>
#include <cmath>
#include <sstream>

namespace c10 {
using namespace vf;

template<class W> using rep_t = cnl::_impl::rep_of_t<W>;
template<class W> constexpr bool multiword = cnl::_impl::is_uintwide_v<rep_t<W>>;

template<class W>
constexpr int storage_bits()
{
    if constexpr (multiword<W>) return (int)(rep_t<W>::number_of_limbs * std::numeric_limits<typename rep_t<W>::limb_type>::digits);
    else return (int)sizeof(rep_t<W>) * 8;
}
// two's-complement bit pattern of the storage, big-endian hex
template<class W>
std::string hex(W const& w)
{
    std::string s;
    char b[40];
    if constexpr (multiword<W>) {
        auto const& r = cnl::_impl::to_rep(w).crepresentation();
        using L = typename rep_t<W>::limb_type;
        for (size_t i = r.size(); i-- > 0;) {
            snprintf(b, sizeof b, "%0*llx", (int)sizeof(L) * 2, (unsigned long long)r[i]);
            s += b;
        }
    } else {
        u128 u = (u128)cnl::_impl::to_rep(w);
        int n = (int)sizeof(rep_t<W>);
        for (int i = n - 1; i >= 0; --i) {
            snprintf(b, sizeof b, "%02x", (unsigned)((u >> (8 * i)) & 0xff));
            s += b;
        }
    }
    return s;
}
// build a value from a little-endian sequence of 64-bit words (truncated / zero-extended to the storage)
template<class W>
W make(std::vector<uint64_t> const& words)
{
    if constexpr (multiword<W>) {
        rep_t<W> r{};
        using L = typename rep_t<W>::limb_type;
        constexpr int lb = std::numeric_limits<L>::digits;
        auto& a = r.representation();
        for (size_t i = 0; i < a.size(); ++i) {
            size_t bit = i * lb;
            uint64_t w = bit / 64 < words.size() ? words[bit / 64] : 0;
            a[i] = (L)(w >> (bit % 64));
        }
        return cnl::_impl::from_rep<W>(r);
    } else {
        u128 u = (words.size() > 0 ? (u128)words[0] : 0) | (words.size() > 1 ? (u128)words[1] << 64 : 0);
        return cnl::_impl::from_rep<W>((rep_t<W>)u);
    }
}

template<class W>
std::vector<std::vector<uint64_t>> operands(Rng& rng, long nrand)
{
    int const nw = (storage_bits<W>() + 63) / 64;
    std::vector<std::vector<uint64_t>> v;
    auto fill = [&](uint64_t x) { return std::vector<uint64_t>((size_t)nw, x); };
    v.push_back(fill(0));
    v.push_back(fill(~0ull));                  // -1 / all ones
    { auto t = fill(0); t[0] = 1; v.push_back(t); }
    { auto t = fill(0); t[0] = 2; v.push_back(t); }
    { auto t = fill(~0ull); t[0] = ~0ull - 1; v.push_back(t); }
    int const sb = storage_bits<W>();
    // 2^k, 2^k +- 1 across every limb boundary (8/16/32/64-bit limbs) and at the top
    for (int k = 1; k < sb; ++k) {
        bool boundary = k % 8 == 0 || k % 8 == 7 || k % 8 == 1 || k >= sb - 2;
        if (!boundary && (k * 2654435761u >> 28) != (unsigned)(env_seed() & 15)) continue;
        for (int d = -1; d <= 1; ++d) {
            auto t = fill(0);
            t[(size_t)(k / 64)] = 1ull << (k % 64);
            if (d == 1) t[0] |= 1;
            if (d == -1) {  // 2^k - 1: all ones below k
                t = fill(0);
                for (int i = 0; i < k; ++i) t[(size_t)(i / 64)] |= 1ull << (i % 64);
            }
            v.push_back(t);
            if (k % 16 == 0) {  // negatives: two's complement of the pattern
                auto n = t;
                uint64_t c = 1;
                for (auto& w : n) { w = ~w + c; c = (c && w == 0) ? 1 : 0; }
                v.push_back(n);
            }
        }
    }
    // limb patterns for long-division corner cases
    for (uint64_t pat : {0x8000000000000000ull, 0x7fffffffffffffffull, 0xffffffff00000000ull, 0x00000000ffffffffull, 0x0101010101010101ull, 0x8080808080808080ull, 0xfffffffffffffffeull}) {
        v.push_back(fill(pat));
        auto t = fill(0);
        t[(size_t)nw - 1] = pat;
        v.push_back(t);
        auto u = fill(0);
        u[0] = pat;
        v.push_back(u);
        if (nw > 1) { auto x = fill(~0ull); x[(size_t)nw / 2] = pat; v.push_back(x); }
    }
    for (long i = 0; i < nrand; ++i) {
        auto t = fill(0);
        int words = 1 + (int)rng.below((uint64_t)nw);
        for (int j = 0; j < words; ++j) t[(size_t)j] = rng.next();
        if (rng.next() & 1) t[(size_t)words - 1] >>= rng.below(64);
        if (rng.next() & 3) {} else { for (int j = words; j < nw; ++j) t[(size_t)j] = ~0ull; }  // sign-extended negatives
        v.push_back(t);
    }
    return v;
}

template<class W>
void wide(char const* desc, int kid)
{
    if (!kernel_selected(desc)) return;
    g.cur_kernel = desc;
    Rng rng(mix(env_seed(), hash_str(desc)));
    constexpr bool sg = cnl::numbers::signedness_v<W>;
    printf("{\"t\":\"kd\",\"id\":%d,\"k\":\"%s\",\"digits\":%d,\"signed\":%d,\"bits\":%d,\"multiword\":%d}\n", kid, desc, (int)cnl::digits_v<W>, (int)sg, storage_bits<W>(), (int)multiword<W>);
    auto ops = operands<W>(rng, env_long("VERIF_NRAND", 40));
    std::vector<W> vals;
    for (auto const& o : ops) vals.push_back(make<W>(o));
    // numeric_limits
    printf("W %d limits - - VALUE %s %s\n", kid, hex(std::numeric_limits<W>::max()).c_str(), hex(std::numeric_limits<W>::lowest()).c_str());
    auto emit2 = [&](char const* op, W const& a, std::string const& b, Outcome const& o, std::string const& r) {
        printf("W %d %s %s %s %s %s\n", kid, op, hex(a).c_str(), b.c_str(), kind_name(o.kind), o.kind == VALUE ? r.c_str() : "-");
    };
    size_t n = vals.size();
    long pairs = env_long("VERIF_PAIRS", 4000);
    for (long p = 0; p < pairs; ++p) {
        // directed pairs first (every operand with a few partners), then random pairs
        // partners of every operand: itself, 0, all-ones(-1), 1, 2, three random ones; odd rounds swap the operand order
        size_t i = (size_t)p < n * 8 ? (size_t)p / 8 : rng.below(n);
        size_t sel = (size_t)p % 8;
        size_t j = (size_t)p < n * 8 ? (sel == 0 ? i : sel == 1 ? 0 : sel == 2 ? 1 : sel == 3 ? 2 : sel == 4 ? 3 : rng.below(n)) : rng.below(n);
        if ((p / 8) & 1) std::swap(i, j);
        W const& a = vals[i];
        W const& b = vals[j];
        std::string hb = hex(b);
        W r{};
        bool t = false;
        Outcome o;
#define VF_OP(name, expr) o = guarded([&] { r = (expr); }); emit2(name, a, hb, o, hex(r));
#define VF_CMP(name, expr) o = guarded([&] { t = (expr); }); emit2(name, a, hb, o, t ? "1" : "0");
        VF_OP("+", a + b) VF_OP("-", a - b) VF_OP("*", a * b)
        VF_OP("&", a & b) VF_OP("|", a | b) VF_OP("^", a ^ b)
        if (hb.find_first_not_of('0') != std::string::npos) { VF_OP("/", a / b) VF_OP("%", a % b) }
        VF_CMP("<", a < b) VF_CMP("<=", a <= b) VF_CMP(">", a > b) VF_CMP(">=", a >= b) VF_CMP("==", a == b) VF_CMP("!=", a != b)
    }
    for (size_t i = 0; i < n; ++i) {
        W const& a = vals[i];
        W r{};
        Outcome o;
        o = guarded([&] { r = -a; }); emit2("neg", a, "-", o, hex(r));
        o = guarded([&] { W x = a; r = ++x; if (r != x) r = W{0}; }); emit2("++x", a, "-", o, hex(r));
        o = guarded([&] { W x = a; r = --x; if (r != x) r = W{0}; }); emit2("--x", a, "-", o, hex(r));
        o = guarded([&] { W x = a; r = x++; if (r != a) r = W{0}; else r = x; }); emit2("x++", a, "-", o, hex(r));
        o = guarded([&] { W x = a; r = x--; if (r != a) r = W{0}; else r = x; }); emit2("x--", a, "-", o, hex(r));
        // shifts: counts in [0, width)
        int const sb = storage_bits<W>();
        for (int c : {0, 1, 7, 8, 9, 31, 32, 33, 63, 64, 65, sb / 2, sb - 2, sb - 1, (int)rng.below((uint64_t)sb)}) {
            if (c < 0 || c >= sb) continue;
            if (i % 4 && c != 1 && c != sb - 1 && c != 64) continue;
            o = guarded([&] { r = a << c; }); emit2("<<", a, std::to_string(c), o, hex(r));
            o = guarded([&] { r = a >> c; }); emit2(">>", a, std::to_string(c), o, hex(r));
        }
        // conversions to built-ins and floating point, decimal text
        {
            long long ll = 0; unsigned long long ull = 0; int in = 0;
            o = guarded([&] { ll = static_cast<long long>(a); }); emit2("to_i64", a, "-", o, std::to_string(ll));
            o = guarded([&] { ull = static_cast<unsigned long long>(a); }); emit2("to_u64", a, "-", o, std::to_string(ull));
            o = guarded([&] { in = static_cast<int>(a); }); emit2("to_i32", a, "-", o, std::to_string(in));
            double d = 0; float f = 0; long double ld = 0;
            o = guarded([&] { d = static_cast<double>(a); }); emit2("to_f64", a, "-", o, fstr(d));
            o = guarded([&] { f = static_cast<float>(a); }); emit2("to_f32", a, "-", o, fstr(f));
            o = guarded([&] { ld = static_cast<long double>(a); }); emit2("to_f80", a, "-", o, fstr(ld));
            std::string s;
            o = guarded([&] { std::ostringstream os; os << a; s = os.str(); }); emit2("text", a, "-", o, s.empty() ? "-" : s);
        }
    }
    // conversions from built-ins and floating point
    auto from = [&](char const* op, std::string const& src, auto v) {
        W r{};
        Outcome o = guarded([&] { r = static_cast<W>(v); });
        printf("W %d %s %s - %s %s\n", kid, op, src.c_str(), kind_name(o.kind), o.kind == VALUE ? hex(r).c_str() : "-");
    };
    for (long long v : lattice<long>()) { from("from_i64", std::to_string(v), v); }
    for (unsigned long long v : lattice<unsigned long>()) from("from_u64", std::to_string(v), v);
    for (int v : {0, 1, -1, 127, -128, 32767, -32768, 2147483647, (-2147483647 - 1)}) from("from_i32", std::to_string(v), v);
    long nf = env_long("VERIF_NFLOAT", 300);
    for (long i = 0; i < nf; ++i) {
        int e = (int)rng.below((uint64_t)storage_bits<W>() + 20) - 10;
        double m = 1 + (double)(rng.next() >> 11) / 9007199254740992.0;
        double x = std::ldexp(m, e);
        if (sg && (rng.next() & 1)) x = -x;
        from("from_f64", fstr(x), x);
        float xf = (float)std::ldexp(m, e % 120);
        if (sg && (rng.next() & 1)) xf = -xf;
        from("from_f32", fstr(xf), xf);
        long double xl = ldexpl(1.0L + (long double)rng.next() / 18446744073709551616.0L, e);
        if (sg && (rng.next() & 1)) xl = -xl;
        from("from_f80", fstr(xl), xl);
    }
#undef VF_OP
#undef VF_CMP
    fflush(stdout);
    g.cur_kernel = "";
}

// same-type comparison kernel used by C03 (wide part): a subset of the above
}  // namespace c10

namespace c10 {
// wide_integer combined with a built-in integer operand, both orders:  M <kid> <op> <order> <a_hex> <b_dec> <KIND> <r_hex> <r_bits> <r_signed>
template<class W, class B>
void wide_mixed(char const* desc, int kid)
{
    using namespace vf;
    if (!kernel_selected(desc)) return;
    g.cur_kernel = desc;
    Rng rng(mix(env_seed(), hash_str(desc)));
    printf("{\"t\":\"kd\",\"id\":%d,\"k\":\"%s\",\"digits\":%d,\"signed\":%d,\"bits\":%d,\"multiword\":%d,\"bsigned\":%d,\"bbits\":%d}\n", kid, desc, (int)cnl::digits_v<W>, (int)cnl::numbers::signedness_v<W>, storage_bits<W>(),
           (int)multiword<W>, (int)is_sgn<B>, (int)sizeof(B) * 8);
    auto ops = operands<W>(rng, 30);
    std::vector<B> bs;
    for (B b : lattice<B>()) {
        u128 m = b < 0 ? (u128)0 - (u128)(i128)b : (u128)b;
        if (m <= 12 || (m & (m + 1)) == 0 || (m & (m - 1)) == 0 || b == tmin<B>() || b == tmax<B>()) bs.push_back(b);
    }
    for (int i = 0; i < 12; ++i) bs.push_back(rand_val<B>(rng));
    auto emit = [&](char const* op, int order, W const& a, B b, auto&& f) {
        using R = std::remove_cvref_t<decltype(f())>;
        R r{};
        Outcome o = guarded([&] { r = f(); });
        if constexpr (std::is_same_v<R, bool>)
            printf("M %d %s %d %s %s %s %d 1 0\n", kid, op, order, hex(a).c_str(), istr(b).c_str(), kind_name(o.kind), (int)r);
        else
            printf("M %d %s %d %s %s %s %s %d %d\n", kid, op, order, hex(a).c_str(), istr(b).c_str(), kind_name(o.kind), o.kind == VALUE ? hex(r).c_str() : "-", storage_bits<R>(), (int)cnl::numbers::signedness_v<R>);
    };
    size_t n = std::min<size_t>(ops.size(), 120);
    for (size_t i = 0; i < n; ++i) {
        W a = make<W>(ops[i < 60 ? i : rng.below(ops.size())]);
        // values above the declared digits are outside numeric_limits: operands are kept inside
        for (B b : bs) {
            emit("+", 0, a, b, [&] { return a + b; });  emit("+", 1, a, b, [&] { return b + a; });
            emit("-", 0, a, b, [&] { return a - b; });  emit("-", 1, a, b, [&] { return b - a; });
            emit("*", 0, a, b, [&] { return a * b; });  emit("*", 1, a, b, [&] { return b * a; });
            if (b != 0) { emit("/", 0, a, b, [&] { return a / b; }); emit("%", 0, a, b, [&] { return a % b; }); }
        }
    }
    fflush(stdout);
    g.cur_kernel = "";
}

// cross-type comparison of two wide_integer types (C03, wide part):  C <kid> <op> <a_hex> <b_hex> <KIND> <0|1>
template<class W1, class W2>
void wide_cmp(char const* desc, int kid)
{
    using namespace vf;
    if (!kernel_selected(desc)) return;
    g.cur_kernel = desc;
    Rng rng(mix(env_seed(), hash_str(desc)));
    printf("{\"t\":\"kd\",\"id\":%d,\"k\":\"%s\",\"bits1\":%d,\"signed1\":%d,\"bits2\":%d,\"signed2\":%d,\"digits1\":%d,\"digits2\":%d}\n", kid, desc, storage_bits<W1>(), (int)cnl::numbers::signedness_v<W1>, storage_bits<W2>(),
           (int)cnl::numbers::signedness_v<W2>, (int)cnl::digits_v<W1>, (int)cnl::digits_v<W2>);
    auto o1 = operands<W1>(rng, 20);
    auto o2 = operands<W2>(rng, 20);
    long pairs = env_long("VERIF_PAIRS", 3000);
    for (long p = 0; p < pairs; ++p) {
        W1 a = make<W1>(o1[(size_t)p < o1.size() * 3 ? (size_t)p / 3 : rng.below(o1.size())]);
        W2 b = make<W2>(o2[rng.below(o2.size())]);
        std::string ha = hex(a), hb = hex(b);
        bool t = false;
        Outcome o;
#define VF_C(name, expr) o = guarded([&] { t = (expr); }); printf("C %d %s %s %s %s %d\n", kid, name, ha.c_str(), hb.c_str(), kind_name(o.kind), (int)t);
        VF_C("<", a < b) VF_C("<=", a <= b) VF_C(">", a > b) VF_C(">=", a >= b) VF_C("==", a == b) VF_C("!=", a != b)
        VF_C("r<", b < a) VF_C("r==", b == a)
#undef VF_C
    }
    fflush(stdout);
    g.cur_kernel = "";
}
}  // namespace c10
