// E-scaled (C01, C02, C03): scaled_integer arithmetic, division/remainder/quotient, comparisons vs exact values.
#pragma once
#include "rt/rt.h"
#include "rt/x256.h"

#include <cnl/elastic_integer.h>
#include <cnl/elastic_scaled_integer.h>
#include <cnl/fraction.h>
#include <cnl/overflow_integer.h>
#include <cnl/rounding_integer.h>
#include <cnl/scaled_integer.h>

namespace c01 {
using namespace vf;

enum Op { ADD, SUB, MUL, DIV, MOD, LT, LE, GT, GE, EQ, NE, NEG, QUOT };
inline char const* opname(int o)
{
    static char const* n[] = {"+", "-", "*", "/", "%", "<", "<=", ">", ">=", "==", "!=", "neg", "quotient"};
    return n[o];
}

template<class T> constexpr bool is_builtin = std::is_integral_v<T> || is_int128<T>;

template<class T>
T from_x(X const& v)
{
    u128 m = v.mag128();
    if constexpr (is_sgn<T>) return (T)(v.neg ? (i128)((u128)0 - m) : (i128)m);
    else return (T)m;
}
// innermost built-in type of a (possibly nested) wrapper
template<class T> struct base_of { using type = T; };
template<class R, class Tag> struct base_of<cnl::_impl::wrapper<R, Tag>> { using type = typename base_of<R>::type; };
template<class T> using base_of_t = typename base_of<T>::type;

template<class T>
constexpr T deep(X const& raw)
{
    if constexpr (cnl::_impl::is_wrapper<T>) return cnl::_impl::from_rep<T>(deep<cnl::_impl::rep_of_t<T>>(raw));
    else return from_x<T>(raw);
}
template<class T>
X deepval(T const& x)
{
    if constexpr (cnl::_impl::is_wrapper<T>) return deepval(cnl::_impl::to_rep(x));
    else return X::of(x);
}

template<class T> struct is_elastic : std::false_type {};
template<int D, class N> struct is_elastic<cnl::elastic_integer<D, N>> : std::true_type {};

// declared value range of a rep and its workload
template<class Rep>
struct RT {
    static constexpr bool builtin = is_builtin<Rep>;
    static constexpr bool elastic = is_elastic<Rep>::value;
    using base = base_of_t<Rep>;
    static X lo()
    {
        if constexpr (elastic) return cnl::numbers::signedness_v<Rep> ? -(xpow2(cnl::digits_v<Rep>) - X::from_u(1)) : X();
        else if constexpr (!builtin) return deepval(std::numeric_limits<Rep>::lowest());
        else return xmin<base>();
    }
    static X hi()
    {
        if constexpr (elastic) return xpow2(cnl::digits_v<Rep>) - X::from_u(1);
        else if constexpr (!builtin) return deepval(std::numeric_limits<Rep>::max());
        else return xmax<base>();
    }
    static std::vector<X> values(Rng& rng, size_t& ndistinct, long nrand, int max_exh_bits = 8)
    {
        std::vector<X> v;
        X l = lo(), h = hi();
        int bits = elastic ? cnl::digits_v<Rep> : width_of<base>;
        if (bits <= max_exh_bits) {
            for (X x = l; x <= h; x = x + X::from_u(1)) v.push_back(x);
            ndistinct = v.size();
            return v;
        }
        for (base b : lattice<base>()) {
            X x = X::of(b);
            if (x >= l && x <= h) v.push_back(x);
        }
        for (int d = 0; d <= 3; ++d) {
            v.push_back(h - X::from_u(d));
            v.push_back(l + X::from_u(d));
        }
        for (int t : {5, 7, 10, 100, 1000}) {
            if (X::from_i(t) <= h) v.push_back(X::from_i(t));
            if (X::from_i(-t) >= l) v.push_back(X::from_i(-t));
        }
        std::sort(v.begin(), v.end(), [](X const& a, X const& b) { return a < b; });
        v.erase(std::unique(v.begin(), v.end()), v.end());
        ndistinct = v.size();
        for (long i = 0; i < nrand; ++i) {
            X x = X::of(rand_val<base>(rng));
            if (x >= l && x <= h) v.push_back(x);
        }
        return v;
    }
};
inline X xipow(int radix, int n)
{
    X p = X::from_u(1);
    for (int i = 0; i < n; ++i) p = p * X::from_u((unsigned)radix);
    return p;
}
template<class T> using promoted_t = decltype(+T{});
template<class T> bool fits(X const& v) { return v >= xmin<T>() && v <= xmax<T>(); }

template<class S> struct facts {
    static constexpr int exponent = cnl::_impl::tag_of_t<S>::exponent;
    static constexpr int radix = cnl::_impl::tag_of_t<S>::radix;
};

// Plain: 0 = both scaled_integer; 1 = rhs is a plain built-in integer; 2 = lhs is a plain built-in integer
template<int Oper, class LR, int LE_, class RR, int RE, int Radix, int Plain>
void arith(char const* desc)
{
    if (!kernel_selected(desc)) return;
    using A = std::conditional_t<Plain == 2, LR, cnl::scaled_integer<LR, cnl::power<LE_, Radix>>>;
    using B = std::conditional_t<Plain == 1, RR, cnl::scaled_integer<RR, cnl::power<RE, Radix>>>;
    Tally t(desc);
    Rng rng(mix(env_seed(), hash_str(desc)));
    size_t na, nb;
    long nr = env_long("VERIF_NRAND", 40);
    auto as = RT<LR>::values(rng, na, nr);
    auto bs = RT<RR>::values(rng, nb, nr);
    if (Oper == NEG) { bs.assign(1, X()); nb = 1; }
    constexpr int emin = LE_ < RE ? LE_ : RE;
    // fixed-width representations: built-in integers, or overflow_integer wrappers directly over them (same arithmetic inside the domain)
    using LB = base_of_t<LR>;
    using RB = base_of_t<RR>;
    constexpr bool bothb = is_builtin<LB> && is_builtin<RB> && !RT<LR>::elastic && !RT<RR>::elastic;
    t.exhaustive = na == as.size() && nb == bs.size();
    X const fl = xipow(Radix, LE_ - emin), fr = xipow(Radix, RE - emin);
    for (size_t i = 0; i < as.size() && !t.closed; ++i)
        for (size_t j = 0; j < bs.size(); ++j) {
            X const& ra = as[i];
            X const& rb = bs[j];
            X ax = ra * fl, ay = rb * fr;  // operands in units of Radix^emin
            // ---- domain (from values and C++ type rules only)
            bool ind = true;
            X want;
            int wexp = 0;
            bool bwant = false;
            if constexpr (Oper == DIV || Oper == MOD || Oper == QUOT) if (rb.zero()) ind = false;
            if constexpr (bothb) {
                using PL = promoted_t<LB>;
                using PR = promoted_t<RB>;
                if constexpr (Oper == ADD || Oper == SUB || (Oper >= LT && Oper <= NE)) {
                    using C = decltype(PL{} + PR{});
                    if (!fits<PL>(ax) || !fits<PR>(ay)) ind = false;
                    want = Oper == SUB ? ax - ay : ax + ay;
                    wexp = emin;
                    if ((Oper == ADD || Oper == SUB) && !fits<C>(want)) ind = false;
                    if constexpr (Oper >= LT) {
                        // mixed signedness: the built-in comparison of the aligned reps (after the usual conversions)
                        X ca = ax, cb = ay;
                        if constexpr (is_sgn<PL> != is_sgn<PR> && !is_sgn<C>) {
                            X mod = xpow2(width_of<C>);
                            if (ca.neg) ca = ca + mod;
                            if (cb.neg) cb = cb + mod;
                        }
                        bwant = Oper == LT ? ca < cb : Oper == LE ? ca <= cb : Oper == GT ? ca > cb : Oper == GE ? ca >= cb : Oper == EQ ? ca == cb : ca != cb;
                    }
                } else if constexpr (Oper == MUL) {
                    using C = decltype(PL{} * PR{});
                    want = ra * rb;
                    wexp = LE_ + RE;
                    if (!fits<C>(want)) ind = false;
                } else if constexpr (Oper == DIV || Oper == MOD) {
                    using C = decltype(PL{} / PR{1});
                    // rep division must itself be defined: operands representable in the common type, not (lowest, -1)
                    if (!fits<C>(ra) || !fits<C>(rb)) ind = false;
                    if (ind && !rb.zero()) {
                        want = Oper == DIV ? tdiv(ra, rb) : trem(ra, rb);
                        if (!fits<C>(tdiv(ra, rb))) ind = false;
                    }
                    wexp = Oper == DIV ? LE_ - RE : LE_;
                } else if constexpr (Oper == NEG) {
                    want = -ra;
                    wexp = LE_;
                    if (!fits<PL>(want)) ind = false;
                }
            } else {
                // elastic reps widen: no restriction
                if constexpr (Oper == ADD) { want = ax + ay; wexp = emin; }
                else if constexpr (Oper == SUB) { want = ax - ay; wexp = emin; }
                else if constexpr (Oper == MUL) { want = ra * rb; wexp = LE_ + RE; }
                else if constexpr (Oper == DIV) { if (ind) want = tdiv(ra, rb); wexp = LE_ - RE; }
                else if constexpr (Oper == MOD) { if (ind) want = trem(ra, rb); wexp = LE_; }
                else if constexpr (Oper == NEG) { want = -ra; wexp = LE_; }
                else if constexpr (Oper >= LT && Oper <= NE)
                    bwant = Oper == LT ? ax < ay : Oper == LE ? ax <= ay : Oper == GT ? ax > ay : Oper == GE ? ax >= ay : Oper == EQ ? ax == ay : ax != ay;
            }
            if (!ind) { ++t.ood; continue; }
            X got;
            int gexp = 0, gradix = Radix;
            bool bgot = false;
            std::string verdict;
            Outcome o = guarded([&] {
                A a = deep<A>(ra);
                B b = deep<B>(rb);
                (void)b;
                if constexpr (Oper <= MOD || Oper == NEG) {
                    auto r = [&] {
                        if constexpr (Oper == ADD) return a + b;
                        else if constexpr (Oper == SUB) return a - b;
                        else if constexpr (Oper == MUL) return a * b;
                        else if constexpr (Oper == DIV) return a / b;
                        else if constexpr (Oper == MOD) return a % b;
                        else return -a;
                    }();
                    using R = decltype(r);
                    got = deepval(r);
                    gexp = facts<R>::exponent;
                    gradix = facts<R>::radix;
                    if (gexp != wexp || gradix != Radix) verdict = "wrong_exponent";
                    else if (got != want) verdict = "wrong_value";
                } else if constexpr (Oper == QUOT) {
                    auto r = cnl::quotient(a, b);
                    using R = decltype(r);
                    got = deepval(r);
                    gexp = facts<R>::exponent;
                    // true quotient ra*R^LE / (rb*R^RE), truncated toward zero at the result resolution R^gexp
                    int s = LE_ - RE - gexp;
                    X num = ra, den = rb;
                    if (s >= 0) num = num * xipow(Radix, s); else den = den * xipow(Radix, -s);
                    want = tdiv(num, den);
                    wexp = gexp;
                    if (got != want) verdict = "wrong_value";
                } else {
                    bgot = Oper == LT ? a < b : Oper == LE ? a <= b : Oper == GT ? a > b : Oper == GE ? a >= b : Oper == EQ ? a == b : a != b;
                    int cnt = (a < b) + (a == b) + (a > b);
                    if (cnt != 1 || (a <= b) != ((a < b) || (a == b)) || (a >= b) != !(a < b) || (a != b) == (a == b)) verdict = "inconsistent_comparisons";
                    else if (bgot != bwant) verdict = "wrong_truth_value";
                }
            });
            bool distinct = i < na && j < nb;
            bool nt = distinct && (ra.zero() || rb.zero() || ax == ay || ax == -ay || ra == RT<LR>::lo() || ra == RT<LR>::hi() || rb == RT<RR>::lo() || rb == RT<RR>::hi() || ra.mag128() <= 3 || rb.mag128() <= 3);
            auto in = [&] { return ra.str() + "e" + std::to_string(LE_) + " " + opname(Oper) + " " + rb.str() + "e" + std::to_string(RE) + " (radix " + std::to_string(Radix) + ")"; };
            auto ex = [&] { return (Oper >= LT && Oper <= NE) ? std::string(bwant ? "true" : "false") : want.str() + "e" + std::to_string(wexp); };
            auto ob = [&] { return outcome_str(o, (Oper >= LT && Oper <= NE) ? std::string(bgot ? "true" : "false") : got.str() + "e" + std::to_string(gexp)); };
            if (o.kind == VALUE && verdict.empty()) {
                t.held(o, nt);
                t.sample(nt, in, ex, ob);
            } else {
                std::string cls = o.kind == VALUE ? verdict : kind_name(o.kind);
                // known: for an *unsigned* built-in rep an alignment shift >= the promoted width is not rejected at compile
                // time (it is for signed reps) and evaluates 1u << shift; only the operand value 0 is in the domain
                if constexpr (bothb && Radix == 2 && (Oper == ADD || Oper == SUB || (Oper >= LT && Oper <= NE))) {
                    using PL = promoted_t<LB>;
                    using PR = promoted_t<RB>;
                    constexpr bool lbad = !is_sgn<LB> && (LE_ - emin) >= width_of<PL>;
                    constexpr bool rbad = !is_sgn<RB> && (RE - emin) >= width_of<PR>;
                    if ((lbad || rbad) && o.kind == UB_TRAP) cls = "unsigned_alignment_shift_ge_width";
                }
                t.violation(cls, o, in(), ex(), ob(), nt);
            }
        }
    t.emit();
}
}  // namespace c01
