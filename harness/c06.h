// E-overflow (C06, C07): tagged arithmetic / conversion vs an exact oracle; every trap is an event.
#pragma once
#include "rt/rt.h"
#include "rt/x256.h"

#include <cnl/overflow_integer.h>
#include <cnl/rounding_integer.h>
#include <cnl/scaled_integer.h>
#include <cmath>

namespace c06 {
using namespace vf;

struct Sat { using tag = cnl::saturated_overflow_tag; static constexpr int id = 0; static constexpr char const* name = "saturated"; };
struct Thr { using tag = cnl::_impl::throwing_overflow_tag; static constexpr int id = 1; static constexpr char const* name = "throwing"; };
struct Trp { using tag = cnl::trapping_overflow_tag; static constexpr int id = 2; static constexpr char const* name = "trapping"; };

struct Add { using op = cnl::_impl::add_op; static constexpr char const* name = "+"; static constexpr int id = 0; };
struct Sub { using op = cnl::_impl::subtract_op; static constexpr char const* name = "-"; static constexpr int id = 1; };
struct Mul { using op = cnl::_impl::multiply_op; static constexpr char const* name = "*"; static constexpr int id = 2; };
struct Div { using op = cnl::_impl::divide_op; static constexpr char const* name = "/"; static constexpr int id = 3; };
struct Shl { using op = cnl::_impl::shift_left_op; static constexpr char const* name = "<<"; static constexpr int id = 4; };

template<class O, class L, class R> struct res;
template<class L, class R> struct res<Add, L, R> { using type = decltype(L{} + R{}); };
template<class L, class R> struct res<Sub, L, R> { using type = decltype(L{} - R{}); };
template<class L, class R> struct res<Mul, L, R> { using type = decltype(L{} * R{}); };
template<class L, class R> struct res<Div, L, R> { using type = decltype(L{} / R{1}); };
template<class L, class R> struct res<Shl, L, R> { using type = decltype(L{} << R{}); };

// expected outcome descriptor
struct Exp {
    int pol = 0;        // 0 in range, +1 positive overflow, -1 negative overflow
    X value;            // in-range value, or the saturation bound
    bool band = false;  // float don't-care band: both "overflow" and VALUE(value) are acceptable
};
template<class Res>
Exp expect_from_exact(X const& e)
{
    Exp x;
    if (e > xmax<Res>()) {
        x.pol = 1;
        x.value = xmax<Res>();
    } else if (e < xmin<Res>()) {
        x.pol = -1;
        x.value = xmin<Res>();
    } else
        x.value = e;
    return x;
}
inline std::string exp_str(Exp const& x, int tagid)
{
    char const* polname = x.pol > 0 ? "positive overflow" : "negative overflow";
    std::string s;
    if (x.pol == 0) s = "VALUE(" + x.value.str() + ")";
    else if (tagid == 0) s = "VALUE(" + x.value.str() + ") [saturated " + polname + "]";
    else if (tagid == 1) s = std::string(x.pol > 0 ? "THROW+" : "THROW-");
    else s = std::string("CNL_ABORT(") + polname + ")";
    if (x.band) s += " or the overflow signal (don't-care band)";
    return s;
}
inline bool is_overflow_abort(Outcome const& o, int pol)
{
    return o.kind == CNL_ABORT && strcmp(o.msg, pol > 0 ? "positive overflow" : "negative overflow") == 0;
}
// does the observed outcome satisfy the expectation?
inline bool satisfies(Exp const& x, int tagid, Outcome const& o, X const& got)
{
    auto signal_ok = [&](int pol) {
        if (tagid == 0) return o.kind == VALUE && got == (pol > 0 ? x.value : x.value);
        if (tagid == 1) return o.kind == (pol > 0 ? THROW_POS : THROW_NEG);
        return is_overflow_abort(o, pol);
    };
    if (x.pol == 0) return o.kind == VALUE && got == x.value;
    if (signal_ok(x.pol)) return true;
    return false;
}
// C07 events: anything that is not a value, the tag's own signal
inline bool is_c07_event(Outcome const& o, int tagid)
{
    if (o.kind == UB_TRAP || o.kind == SIG || o.kind == HANG) return true;
    if (o.kind == CNL_ABORT) return !(tagid == 2 && (is_overflow_abort(o, 1) || is_overflow_abort(o, -1)));
    if (o.kind == THROW_OTHER) return true;
    return false;
}
inline std::string c07_class(Outcome const& o)
{
    std::string s = std::string("c07:") + kind_name(o.kind);
    if (o.kind == CNL_ABORT) {
        // keep the message but drop an absolute path prefix
        char const* m = o.msg;
        char const* inc = strstr(m, "include/cnl/");
        s += std::string(":") + (inc ? inc : m);
    }
    if (o.kind == SIG) s += ":" + std::to_string(o.sig);
    return s;
}

// an overflow that the tag must signal ended in an undefined state instead (e.g. __builtin_unreachable in an NDEBUG build): the
// shipped build neither throws nor terminates, so this is a C06 violation as well as a C07 event
inline std::string event_class(Outcome const& o, int tagid, int pol)
{
    std::string c = c07_class(o);
    if (pol != 0 && tagid != 0 && o.kind == UB_TRAP) return "overflow_signal_replaced_by_undefined_state:" + c;
    return c;
}

template<class T> X raw_to_x(T v) { return X::of(v); }

// boundary bookkeeping for the minimum-observation rule
template<class Res>
void note_boundary(Tally& t, X const& e)
{
    X d = e - xmax<Res>();
    if (d.mag_fits128() && d.mag128() <= 1) t.classes[d.sign() == 0 ? "exact==max" : d.neg ? "exact==max-1" : "exact==max+1"]++;
    d = e - xmin<Res>();
    if (d.mag_fits128() && d.mag128() <= 1) t.classes[d.sign() == 0 ? "exact==lowest" : d.neg ? "exact==lowest-1" : "exact==lowest+1"]++;
}
template<class Res>
bool near_bound(X const& e)
{
    X d = e - xmax<Res>();
    if (d.mag_fits128() && d.mag128() <= 2) return true;
    d = e - xmin<Res>();
    return d.mag_fits128() && d.mag128() <= 2;
}

// solve y such that x op y hits target (best effort); returns false if no such y in R
template<class O, class R>
bool solve(X const& x, X const& target, R& y)
{
    X yy;
    if constexpr (O::id == 0) yy = target - x;
    else if constexpr (O::id == 1) yy = x - target;
    else if constexpr (O::id == 2) {
        if (x.zero()) return false;
        yy = tdiv(target, x);
    } else
        return false;
    if (yy > xmax<R>() || yy < xmin<R>()) return false;
    u128 m = yy.mag128();
    if constexpr (is_sgn<R>) y = (R)(yy.neg ? (i128)((u128)0 - m) : (i128)m);
    else y = (R)m;
    return true;
}

enum Entry { E_OPERATE = 0, E_WRAPPER = 1 };

// shift counts beyond 2w+1: the non-negative lattice of the count type and k*2^j + s with s in [0, w]
template<class R>
std::vector<R> big_counts(int w, Rng& rng)
{
    std::vector<R> cs;
    for (R c : values_for<R>())
        if (!(c < 0) && X::of(c) > X::from_i(2 * w + 1)) cs.push_back(c);
    for (int j : {8, 16, 32, 64})
        if (width_of<R> > j + 1)
            for (int s : {0, 1, 3, w - 1, w})
                for (int m = 0; m < 3; ++m) {
                    X k = m == 0 ? X::from_u(1) : m == 1 ? X::from_u(2) : X::from_u(1 + rng.below(1000));
                    X c = shl(k, (unsigned)j) + X::from_i(s);
                    if (c <= xmax<R>()) cs.push_back((R)c.mag128());
                }
    return cs;
}

template<class O, class TG, class L, class R, int EntryPoint>
void binop(char const* desc)
{
    if (!kernel_selected(desc)) return;
    using Tag = typename TG::tag;
    using Res = typename res<O, L, R>::type;
    Tally t(desc);
    bool const small = width_of<L> <= 8 && width_of<R> <= 8;
    Rng rng(mix(env_seed(), hash_str(desc)));
    bool const mixed_unsigned_res = (is_sgn<L> != is_sgn<R>) && !is_sgn<Res>;

    auto one = [&](L a, R b, bool distinct) {
        if (t.closed) { ++t.notrun; return; }
        if constexpr (O::id == 3) if (b == 0) { ++t.ood; return; }
        if constexpr (O::id == 4) if (b < 0) { ++t.ood; return; }
        X xa = X::of(a), xb = X::of(b), e;
        if constexpr (O::id == 0) e = xa + xb;
        else if constexpr (O::id == 1) e = xa - xb;
        else if constexpr (O::id == 2) e = xa * xb;
        else if constexpr (O::id == 3) e = tdiv(xa, xb);
        else e = shl(xa, (unsigned long)(xb.mag_fits128() && xb.mag128() < 100000 ? (unsigned long)xb.mag128() : 100000ul));
        Exp x = expect_from_exact<Res>(e);
        X got;
        bool type_ok = true;
        Outcome o = guarded([&] {
            if constexpr (EntryPoint == E_OPERATE) {
                auto r = cnl::_impl::operate<typename O::op, Tag>{}(a, b);
                type_ok = std::is_same_v<decltype(r), Res>;
                got = X::of(r);
            } else {
                using WL = cnl::overflow_integer<L, Tag>;
                using WR = cnl::overflow_integer<R, Tag>;
                auto wl = cnl::_impl::from_rep<WL>(a);
                auto wr = cnl::_impl::from_rep<WR>(b);
                auto r = [&] {
                    if constexpr (O::id == 0) return wl + wr;
                    else if constexpr (O::id == 1) return wl - wr;
                    else if constexpr (O::id == 2) return wl * wr;
                    else if constexpr (O::id == 3) return wl / wr;
                    else return wl << wr;
                }();
                auto rr = cnl::_impl::to_rep(r);
                type_ok = std::is_same_v<decltype(r), cnl::overflow_integer<Res, Tag>>;
                got = X::of(rr);
            }
        });
        bool nt = distinct && (near_bound<Res>(e) || is_boundary(a) || is_boundary(b));
        if (distinct) note_boundary<Res>(t, e);
        auto in = [&] { return istr(a) + " " + O::name + " " + istr(b); };
        if (satisfies(x, TG::id, o, got) && type_ok) {
            t.held(o, nt);
            if (x.pol) t.classes[x.pol > 0 ? "signalled+" : "signalled-"]++;
            t.sample(nt, in, [&] { return exp_str(x, TG::id); }, [&] { return outcome_str(o, got.str()); });
            return;
        }
        std::string cls;
        if (is_c07_event(o, TG::id)) cls = event_class(o, TG::id, x.pol);
        else if (!type_ok) cls = "result_type";
        else {
            // known defect model: mixed signedness, unsigned result, the signed operand is negative and the
            // operation is simply performed on the converted operands (no predicate looks at the sign)
            bool signed_operand_negative = (is_sgn<L> && xa.neg) || (is_sgn<R> && xb.neg);
            bool model = false;
            if constexpr (O::id <= 3 && !is_sgn<Res>) {
                if (mixed_unsigned_res && signed_operand_negative && o.kind == VALUE) {
                    Res ca = (Res)a, cb = (Res)b, m = 0;
                    if constexpr (O::id == 0) m = (Res)(ca + cb);
                    else if constexpr (O::id == 1) m = (Res)(ca - cb);
                    else if constexpr (O::id == 2) m = (Res)(ca * cb);
                    else m = cb ? (Res)(ca / cb) : (Res)0;
                    model = got == X::of(m);
                }
            }
            if (model) cls = std::string("mixed_sign_unsigned_result_negative_operand:") + (O::id == 3 ? "div" : "addsubmul");
            else cls = std::string("wrong:") + (x.pol == 0 ? "in-range" : x.pol > 0 ? "overflow+" : "overflow-") + "->" + kind_name(o.kind);
        }
        t.violation(cls, o, in(), exp_str(x, TG::id), outcome_str(o, got.str()), nt);
    };

    if constexpr (O::id == 4) {
        std::vector<L> as = values_for<L>();
        size_t nl = as.size();
        if (!small) for (int i = 0; i < 60; ++i) as.push_back(rand_val<L>(rng));
        int maxc = 2 * width_of<Res> + 1;
        for (size_t i = 0; i < as.size(); ++i)
            for (int c = 0; c <= maxc; ++c) {
                if (X::of(c) > xmax<R>()) break;
                one(as[i], (R)c, i < nl);
            }
        // huge counts where R can hold them
        if constexpr (width_of<R> >= 16)
            for (size_t i = 0; i < nl; ++i)
                for (R c : {(R)1000, tmax<R>(), (R)(tmax<R>() - 1)}) one(as[i], c, true);
        // every non-negative lattice value of the count type, and counts that are small modulo a narrower width (k*2^j + s): a count
        // must not be looked at through a narrower type
        for (R c : big_counts<R>(width_of<Res>, rng))
            for (size_t i = 0; i < nl; i += (i < 8 ? 1 : 5)) one(as[i], c, true);
    } else if (small) {
        t.exhaustive = true;
        for (long a = (long)tmin<L>(); a <= (long)tmax<L>(); ++a)
            for (long b = (long)tmin<R>(); b <= (long)tmax<R>(); ++b) one((L)a, (R)b, true);
    } else {
        std::vector<L> as = values_for<L>();
        std::vector<R> bs = values_for<R>();
        long stride = env_long("VERIF_LATTICE_STRIDE", 1);
        // lattice x lattice (optionally thinned on the larger side, offset by seed)
        for (size_t i = 0; i < as.size(); ++i)
            for (size_t j = (stride > 1 ? (i + env_seed()) % stride : 0); j < bs.size(); j += stride) one(as[i], bs[j], true);
        // solved pairs: exact result lands on bound(Res)+delta
        if constexpr (O::id <= 2) {
            std::vector<L> xs = as;
            for (int i = 0; i < 100; ++i) xs.push_back(rand_val<L>(rng));
            for (L a : xs)
                for (int d = -2; d <= 2; ++d)
                    for (int side = 0; side < 2; ++side) {
                        X target = (side ? xmax<Res>() : xmin<Res>()) + X::from_i(d);
                        R b;
                        if (!solve<O, R>(X::of(a), target, b)) continue;
                        one(a, b, false);
                        if constexpr (O::id == 2) {
                            if (b != tmax<R>()) one(a, (R)(b + 1), false);
                            if (b != tmin<R>()) one(a, (R)(b - 1), false);
                        }
                    }
        }
        long n = env_long("VERIF_N", 20000);
        for (long i = 0; i < n && !t.closed; ++i) one(rand_val<L>(rng), rand_val<R>(rng), false);
    }
    t.emit();
}

// ---- C07 only: the operators the tags do not range-check (% and >>) must still be total: every outcome is a value.
// (the value itself is compared with the exact remainder / arithmetic shift and a mismatch is counted as an informational class)
struct Mod { static constexpr char const* name = "%"; static constexpr int id = 5; };
struct Shr { static constexpr char const* name = ">>"; static constexpr int id = 6; };
template<class O, class TG, class L, class R, int EntryPoint>
void total(char const* desc)
{
    if (!kernel_selected(desc)) return;
    using Tag = typename TG::tag;
    Tally t(desc);
    Rng rng(mix(env_seed(), hash_str(desc)));
    auto one = [&](L a, R b, bool distinct) {
        if (t.closed) { ++t.notrun; return; }
        if constexpr (O::id == 5) if (b == 0) { ++t.ood; return; }
        if constexpr (O::id == 6) if (b < 0) { ++t.ood; return; }
        X xa = X::of(a), xb = X::of(b), got, want;
        bool have_want = false;
        if constexpr (O::id == 5) {
            using Res = decltype(L{} % R{1});
            // the built-in usual arithmetic conversions apply first: only judged for values when both operands are representable in it
            if (xa >= xmin<Res>() && xa <= xmax<Res>() && xb >= xmin<Res>() && xb <= xmax<Res>()) { want = trem(xa, xb); have_want = true; }
        } else {
            unsigned long c = xb.mag_fits128() && xb.mag128() < 100000 ? (unsigned long)xb.mag128() : 100000ul;
            X q, r;
            X::divmod(xa, shl(X::from_u(1), c > 300 ? 300 : c), q, r);
            if (r.neg) q = q - X::from_u(1);  // floor
            want = q;
            have_want = true;
        }
        Outcome o = guarded([&] {
            if constexpr (EntryPoint == E_OPERATE) {
                if constexpr (O::id == 5) got = X::of(cnl::_impl::operate<cnl::_impl::modulo_op, Tag>{}(a, b));
                else got = X::of(cnl::_impl::operate<cnl::_impl::shift_right_op, Tag>{}(a, b));
            } else {
                auto wl = cnl::_impl::from_rep<cnl::overflow_integer<L, Tag>>(a);
                auto wr = cnl::_impl::from_rep<cnl::overflow_integer<R, Tag>>(b);
                if constexpr (O::id == 5) got = X::of(cnl::_impl::to_rep(wl % wr));
                else got = X::of(cnl::_impl::to_rep(wl >> wr));
            }
        });
        bool nt = distinct && (is_boundary(a) || is_boundary(b));
        auto in = [&] { return istr(a) + " " + O::name + " " + istr(b); };
        if (o.kind == VALUE) {
            t.held(o, nt);
            if (have_want && got != want) t.classes["value_differs_from_exact(info)"]++;
            t.sample(nt, in, [&] { return std::string("a value (no undefined operation)"); }, [&] { return outcome_str(o, got.str()); });
        } else
            t.violation(c07_class(o), o, in(), "a value (no undefined operation)", outcome_str(o, got.str()), nt);
    };
    std::vector<L> as = values_for<L>();
    size_t nl = as.size();
    for (int i = 0; i < 200; ++i) as.push_back(rand_val<L>(rng));
    if constexpr (O::id == 6) {
        using Res = decltype(L{} >> 1);
        int maxc = 2 * width_of<Res> + 1;
        for (size_t i = 0; i < as.size(); ++i)
            for (int c = 0; c <= maxc; ++c) {
                if (X::of(c) > xmax<R>()) break;
                one(as[i], (R)c, i < nl);
            }
        for (R c : big_counts<R>(width_of<Res>, rng))
            for (size_t i = 0; i < nl; i += (i < 8 ? 1 : 5)) one(as[i], c, true);
    } else {
        std::vector<R> bs = values_for<R>();
        for (size_t i = 0; i < nl; ++i)
            for (size_t j = 0; j < bs.size(); ++j) one(as[i], bs[j], true);
        for (int i = 0; i < 5000 && !t.closed; ++i) one(rand_val<L>(rng), rand_val<R>(rng), false);
    }
    t.emit();
}

// ---- C07 only: other wrapper nestings and operand forms of the checked types must be total as well (event kind only)
//  form 0: overflow_integer<rounding_integer<T, nearest_rounding_tag>, Tag>  op  same      (+ - * /)
//  form 1: built-in << overflow_integer<T, Tag>  and  built-in >> overflow_integer<T, Tag>   (the count is the wrapper)
template<class TG, class T, int Form>
void total_forms(char const* desc)
{
    if (!kernel_selected(desc)) return;
    using Tag = typename TG::tag;
    Tally t(desc);
    Rng rng(mix(env_seed(), hash_str(desc)));
    std::vector<T> as = values_for<T>();
    size_t nl = as.size();
    for (int i = 0; i < 100; ++i) as.push_back(rand_val<T>(rng));
    auto run = [&](char const* opn, T a, T b, bool distinct, auto&& f) {
        if (t.closed) { ++t.notrun; return; }
        Outcome o = guarded([&] { f(); });
        bool nt = distinct && (is_boundary(a) || is_boundary(b));
        auto in = [&] { return istr(a) + " " + opn + " " + istr(b); };
        bool own_signal = (TG::id == 1 && (o.kind == THROW_POS || o.kind == THROW_NEG)) || (TG::id == 2 && (is_overflow_abort(o, 1) || is_overflow_abort(o, -1)));
        if (o.kind == VALUE || own_signal) {
            t.held(o, nt);
            t.sample(nt, in, [&] { return std::string("a value or the tag's own signal"); }, [&] { return std::string(kind_name(o.kind)); });
        } else
            t.violation(c07_class(o) + ":" + opn, o, in(), "a value or the tag's own signal", outcome_str(o, ""), nt);
    };
    if constexpr (Form == 0) {
        using W = cnl::overflow_integer<cnl::rounding_integer<T, cnl::nearest_rounding_tag>, Tag>;
        for (size_t i = 0; i < as.size(); ++i)
            for (size_t j = (i % 2); j < as.size(); j += 2) {
                T a = as[i], b = as[j];
                W wa = cnl::_impl::from_rep<W>(cnl::_impl::from_rep<cnl::rounding_integer<T, cnl::nearest_rounding_tag>>(a));
                W wb = cnl::_impl::from_rep<W>(cnl::_impl::from_rep<cnl::rounding_integer<T, cnl::nearest_rounding_tag>>(b));
                bool d = i < nl && j < nl;
                run("+", a, b, d, [&] { auto r = wa + wb; (void)r; });
                run("-", a, b, d, [&] { auto r = wa - wb; (void)r; });
                run("*", a, b, d, [&] { auto r = wa * wb; (void)r; });
                if (b != 0) run("/", a, b, d, [&] { auto r = wa / wb; (void)r; });
                run("neg", a, b, d, [&] { auto r = -wa; (void)r; });
            }
    } else {
        using W = cnl::overflow_integer<T, Tag>;
        int w = (int)sizeof(decltype(T{} << 1)) * 8;
        for (size_t i = 0; i < as.size(); ++i)
            for (int c = 0; c <= 2 * w + 1; ++c) {
                if (X::of(c) > xmax<T>()) break;
                T a = as[i];
                W wc = cnl::_impl::from_rep<W>((T)c);
                run("builtin<<wrapper", a, (T)c, i < nl, [&] { auto r = a << wc; (void)r; });
                run("builtin>>wrapper", a, (T)c, i < nl, [&] { auto r = a >> wc; (void)r; });
            }
    }
    t.emit();
}

//  conversion of a scaled_integer<Rep, power<E>> source to a built-in integer under a checked tag (convert<Tag, D> and the
//  overflow_integer<D, Tag> constructor): only the event kind is judged (C06 quantifies over built-in and floating-point sources);
//  a returned value that differs from the exact / clamped one is counted as information
template<class TG, class Rep, int E, class D, int EntryPoint>
void convert_scaled(char const* desc)
{
    if (!kernel_selected(desc)) return;
    using Tag = typename TG::tag;
    using S = cnl::scaled_integer<Rep, cnl::power<E>>;
    Tally t(desc);
    Rng rng(mix(env_seed(), hash_str(desc)));
    std::vector<Rep> as = values_for<Rep>();
    size_t nl = as.size();
    for (int i = 0; i < 2000; ++i) as.push_back(rand_val<Rep>(rng));
    for (size_t i = 0; i < as.size(); ++i) {
        if (t.closed) { ++t.notrun; continue; }
        Rep a = as[i];
        S s = cnl::_impl::from_rep<S>(a);
        X exact;
        if constexpr (E >= 0) exact = shl(X::of(a), (unsigned)E);
        else {
            X q, r;
            X::divmod(X::of(a), shl(X::from_u(1), (unsigned)-E), q, r);
            if (r.neg) q = q - X::from_u(1);  // floor (the shift the conversion performs); either neighbour is in range iff the other is, except next to a bound
            exact = q;
        }
        X got;
        Outcome o = guarded([&] {
            if constexpr (EntryPoint == E_OPERATE) got = X::of(cnl::convert<Tag, D>{}(s));
            else {
                cnl::overflow_integer<D, Tag> r{s};
                got = X::of(cnl::_impl::to_rep(r));
            }
        });
        bool nt = i < nl && (is_boundary(a) || near_bound<D>(exact));
        auto in = [&] { return "rep " + istr(a) + " * 2^" + std::to_string(E); };
        bool own_signal = (TG::id == 1 && (o.kind == THROW_POS || o.kind == THROW_NEG)) || (TG::id == 2 && (is_overflow_abort(o, 1) || is_overflow_abort(o, -1)));
        if (o.kind == VALUE || own_signal) {
            t.held(o, nt);
            bool over = exact > xmax<D>() || exact < xmin<D>();
            if (over && own_signal) t.classes["scaled_source_overflow_signalled(info)"]++;
            else if (over && o.kind == VALUE && TG::id == 0 && got == (exact.neg ? xmin<D>() : xmax<D>())) t.classes["scaled_source_overflow_clamped(info)"]++;
            else if (over) t.classes["scaled_source_overflow_not_handled(info)"]++;
            else if (o.kind == VALUE && got != exact) t.classes["scaled_source_value_differs(info)"]++;
            t.sample(nt, in, [&] { return std::string("a value or the tag's own signal (no undefined operation)"); }, [&] { return outcome_str(o, got.str()); });
        } else
            t.violation(c07_class(o) + ":convert_scaled", o, in(), "a value or the tag's own signal (no undefined operation)", outcome_str(o, got.str()), nt);
    }
    t.emit();
}

template<class TG, class L, int EntryPoint>
void unary_minus(char const* desc)
{
    if (!kernel_selected(desc)) return;
    using Tag = typename TG::tag;
    using Res = decltype(-L{});
    Tally t(desc);
    Rng rng(mix(env_seed(), hash_str(desc)));
    std::vector<L> as;
    if constexpr (width_of<L> <= 16) {
        as = all_values<L>();
        t.exhaustive = true;
    } else
        as = lattice<L>();
    size_t nl = as.size();
    if (width_of<L> > 16) for (int i = 0; i < 20000; ++i) as.push_back(rand_val<L>(rng));
    for (size_t i = 0; i < as.size() && !t.closed; ++i) {
        L a = as[i];
        X e = -X::of(a);
        Exp x = expect_from_exact<Res>(e);
        X got;
        bool type_ok = true;
        Outcome o = guarded([&] {
            if constexpr (EntryPoint == E_OPERATE) {
                auto r = cnl::_impl::operate<cnl::_impl::minus_op, Tag>{}(a);
                type_ok = std::is_same_v<decltype(r), Res>;
                got = X::of(r);
            } else {
                auto r = -cnl::_impl::from_rep<cnl::overflow_integer<L, Tag>>(a);
                got = X::of(cnl::_impl::to_rep(r));
                type_ok = std::is_same_v<decltype(r), cnl::overflow_integer<Res, Tag>>;
            }
        });
        bool nt = i < nl && (near_bound<Res>(e) || is_boundary(a));
        if (i < nl) note_boundary<Res>(t, e);
        if (satisfies(x, TG::id, o, got) && type_ok) {
            t.held(o, nt);
            if (x.pol) t.classes[x.pol > 0 ? "signalled+" : "signalled-"]++;
            t.sample(nt, [&] { return "-(" + istr(a) + ")"; }, [&] { return exp_str(x, TG::id); }, [&] { return outcome_str(o, got.str()); });
        } else {
            std::string cls = is_c07_event(o, TG::id) ? event_class(o, TG::id, x.pol) : !type_ok ? "result_type" : std::string("wrong:") + (x.pol == 0 ? "in-range" : x.pol > 0 ? "overflow+" : "overflow-") + "->" + kind_name(o.kind);
            t.violation(cls, o, "-(" + istr(a) + ")", exp_str(x, TG::id), outcome_str(o, got.str()), nt);
        }
    }
    t.emit();
}

// integer -> integer conversion under a tag
template<class TG, class S, class D, int EntryPoint>
void convert_int(char const* desc)
{
    if (!kernel_selected(desc)) return;
    using Tag = typename TG::tag;
    Tally t(desc);
    Rng rng(mix(env_seed(), hash_str(desc)));
    std::vector<S> as;
    if constexpr (width_of<S> <= 16) {
        as = all_values<S>();
        t.exhaustive = true;
    } else {
        as = lattice<S>();
        // around both bounds of the destination
        for (int d = -3; d <= 3; ++d)
            for (int side = 0; side < 2; ++side) {
                X v = (side ? xmax<D>() : xmin<D>()) + X::from_i(d);
                if (v > xmax<S>() || v < xmin<S>()) continue;
                u128 m = v.mag128();
                as.push_back(v.neg ? (S)(i128)((u128)0 - m) : (S)m);
            }
        std::sort(as.begin(), as.end());
        as.erase(std::unique(as.begin(), as.end()), as.end());
    }
    size_t nl = as.size();
    if (width_of<S> > 16) for (int i = 0; i < 20000; ++i) as.push_back(rand_val<S>(rng));
    for (size_t i = 0; i < as.size() && !t.closed; ++i) {
        S a = as[i];
        X e = X::of(a);
        Exp x = expect_from_exact<D>(e);
        X got;
        bool type_ok = true;
        Outcome o = guarded([&] {
            if constexpr (EntryPoint == E_OPERATE) {
                auto r = cnl::convert<Tag, D>{}(a);
                type_ok = std::is_same_v<decltype(r), D>;
                got = X::of(r);
            } else {
                // construct an overflow_integer<D> from a value of the source type
                cnl::overflow_integer<D, Tag> r{a};
                got = X::of(cnl::_impl::to_rep(r));
            }
        });
        bool nt = i < nl && (near_bound<D>(e) || is_boundary(a));
        if (i < nl) note_boundary<D>(t, e);
        if (satisfies(x, TG::id, o, got) && type_ok) {
            t.held(o, nt);
            if (x.pol) t.classes[x.pol > 0 ? "signalled+" : "signalled-"]++;
            t.sample(nt, [&] { return istr(a); }, [&] { return exp_str(x, TG::id); }, [&] { return outcome_str(o, got.str()); });
        } else {
            std::string cls = is_c07_event(o, TG::id) ? event_class(o, TG::id, x.pol) : !type_ok ? "result_type" : std::string("wrong:") + (x.pol == 0 ? "in-range" : x.pol > 0 ? "overflow+" : "overflow-") + "->" + kind_name(o.kind);
            t.violation(cls, o, istr(a), exp_str(x, TG::id), outcome_str(o, got.str()), nt);
        }
    }
    t.emit();
}

// exact decomposition of a finite floating value: trunc toward zero as X (saturating), and whether a fraction was dropped
inline X trunc_of(long double v, bool& frac)
{
    frac = false;
    if (v == 0) return X();
    int e;
    long double m = frexpl(fabsl(v), &e);  // |v| = m * 2^e, m in [0.5,1)
    uint64_t mi = (uint64_t)ldexpl(m, 64);  // exact: 64-bit significand
    X r = X::from_u(mi);
    int s = e - 64;
    if (s >= 0) r = shl(r, (unsigned long)s);
    else {
        frac = !r.low_bits_zero((unsigned)std::min(-s, 64));
        r = shr_mag(r, (unsigned)std::min(-s, 255));
    }
    if (v < 0) r = -r;
    return r;
}

template<class TG, class F, class D, int EntryPoint>
void convert_float(char const* desc)
{
    if (!kernel_selected(desc)) return;
    using Tag = typename TG::tag;
    Tally t(desc);
    Rng rng(mix(env_seed(), hash_str(desc)));
    std::vector<F> vs;
    auto around = [&](long double c) {
        F f = (F)c;
        if (!std::isfinite(f)) return;
        F lo = f, hi = f;
        vs.push_back(f);
        for (int i = 0; i < 4; ++i) {
            lo = std::nextafter(lo, -std::numeric_limits<F>::infinity());
            hi = std::nextafter(hi, std::numeric_limits<F>::infinity());
            if (std::isfinite(lo)) vs.push_back(lo);
            if (std::isfinite(hi)) vs.push_back(hi);
        }
    };
    long double mx = (long double)tmax<D>(), mn = (long double)tmin<D>();
    // the bounds as exact long doubles where they fit 64 bits of significand; 128-bit max rounds - neighbours cover it
    for (long double c : {mx, mx + 1, mx - 1, mn, mn - 1, mn + 1, 0.0L, 1.0L, -1.0L})
        for (long double off : {0.0L, 0.25L, 0.5L, 0.75L, 1.0L, 1.5L, -0.25L, -0.5L, -0.75L, -1.0L, -1.5L}) around(c + off);
    for (int k = 0; k < 130; ++k) { around(ldexpl(1.0L, k)); around(-ldexpl(1.0L, k)); }
    vs.push_back(std::numeric_limits<F>::infinity());
    vs.push_back(-std::numeric_limits<F>::infinity());
    vs.push_back(std::numeric_limits<F>::max());
    vs.push_back(std::numeric_limits<F>::lowest());
    vs.push_back(std::numeric_limits<F>::min());
    vs.push_back(std::numeric_limits<F>::denorm_min());
    vs.push_back(-std::numeric_limits<F>::denorm_min());
    vs.push_back((F)-0.0);
    std::sort(vs.begin(), vs.end());
    vs.erase(std::unique(vs.begin(), vs.end()), vs.end());
    vs.push_back((F)-0.0);  // (unique() folds -0.0 and +0.0 together; negative zero is a value of its own for sign tests)
    vs.push_back((F)0.0);
    size_t nl = vs.size();
    for (int i = 0; i < 20000; ++i) {
        // log-uniform magnitude up to 2^(w+2)
        int ex = (int)rng.below(width_of<D> + 4) - 2;
        long double m = 1.0L + (long double)(rng.next() >> 11) / 9007199254740992.0L;
        F f = (F)ldexpl((rng.next() & 1) ? m : -m, ex);
        if (std::isfinite(f)) vs.push_back(f);
    }
    for (size_t i = 0; i < vs.size() && !t.closed; ++i) {
        F a = vs[i];
        Exp x;
        X tr;
        if (std::isinf(a)) {
            x.pol = a > 0 ? 1 : -1;
            x.value = a > 0 ? xmax<D>() : xmin<D>();
        } else {
            bool frac;
            tr = trunc_of((long double)a, frac);
            // value >= max+1  <=> trunc >= max+1 ; value in (max,max+1) <=> trunc == max && frac && positive
            if (tr > xmax<D>()) { x.pol = 1; x.value = xmax<D>(); }
            else if (tr < xmin<D>()) { x.pol = -1; x.value = xmin<D>(); }
            else {
                x.value = tr;
                if (frac && tr == xmax<D>() && a > 0) x.band = true, x.pol = 1;
                if (frac && tr == xmin<D>() && a < 0) x.band = true, x.pol = -1;
            }
        }
        X got;
        Outcome o = guarded([&] {
            if constexpr (EntryPoint == E_OPERATE) {
                auto r = cnl::convert<Tag, D>{}(a);
                got = X::of(r);
            } else {
                cnl::overflow_integer<D, Tag> r{a};
                got = X::of(cnl::_impl::to_rep(r));
            }
        });
        bool ok;
        if (x.band) {
            Exp inr;
            inr.value = x.value;
            ok = satisfies(x, TG::id, o, got) || satisfies(inr, TG::id, o, got);
        } else
            ok = satisfies(x, TG::id, o, got);
        bool nt = i < nl;
        if (ok) {
            t.held(o, nt);
            if (x.pol && !x.band) t.classes[x.pol > 0 ? "signalled+" : "signalled-"]++;
            if (x.band) t.classes["dont_care_band"]++;
            t.sample(nt, [&] { return fstr(a); }, [&] { return exp_str(x, TG::id); }, [&] { return outcome_str(o, got.str()); });
        } else {
            std::string cls = is_c07_event(o, TG::id) ? event_class(o, TG::id, x.pol) : std::string("wrong:") + (x.pol == 0 ? "in-range" : x.pol > 0 ? "overflow+" : "overflow-") + "->" + kind_name(o.kind);
            t.violation(cls, o, fstr(a), exp_str(x, TG::id), outcome_str(o, got.str()), nt);
        }
    }
    // NaN has no exact result, so C06 says nothing about it; C07 does (every operand value): only the event kind is judged
    for (F a : {std::numeric_limits<F>::quiet_NaN(), -std::numeric_limits<F>::quiet_NaN()}) {
        if (t.closed) break;
        X got;
        Outcome o = guarded([&] {
            if constexpr (EntryPoint == E_OPERATE) {
                auto r = cnl::convert<Tag, D>{}(a);
                got = X::of(r);
            } else {
                cnl::overflow_integer<D, Tag> r{a};
                got = X::of(cnl::_impl::to_rep(r));
            }
        });
        if (!is_c07_event(o, TG::id)) {
            t.held(o, true);
            t.classes[o.kind == VALUE ? "nan_source_value(info)" : "nan_source_signalled(info)"]++;
        } else
            t.violation(c07_class(o) + ":nan_source", o, std::signbit(a) ? "-nan" : "nan", "a value or the tag's own signal (no undefined operation)", outcome_str(o, got.str()), true);
    }
    t.emit();
}

// compound assignment and ++/-- on overflow_integer: a op= b must equal the checked conversion of (a op b) back to a's rep
template<class O, class TG, class L, class R>
void compound(char const* desc)
{
    if (!kernel_selected(desc)) return;
    using Tag = typename TG::tag;
    using Res = typename res<O, L, R>::type;
    Tally t(desc);
    Rng rng(mix(env_seed(), hash_str(desc)));
    std::vector<L> as = values_for<L>();
    std::vector<R> bs = values_for<R>();
    for (L a : as)
        for (R b : bs) {
            if (t.closed) break;
            if constexpr (O::id == 3) if (b == 0) { ++t.ood; continue; }
            X xa = X::of(a), xb = X::of(b), e;
            if constexpr (O::id == 0) e = xa + xb;
            else if constexpr (O::id == 1) e = xa - xb;
            else if constexpr (O::id == 2) e = xa * xb;
            else e = tdiv(xa, xb);
            // two-step expectation: first the operation in Res, then the conversion to L
            Exp x1 = expect_from_exact<Res>(e);
            Exp x = x1;
            if (TG::id == 0 && x1.pol) {
                // saturated: the intermediate saturates to a bound of Res, which is then converted (and saturated) to L
                x = expect_from_exact<L>(x1.value);
            } else if (x1.pol == 0)
                x = expect_from_exact<L>(e);
            X got;
            Outcome o = guarded([&] {
                auto w = cnl::_impl::from_rep<cnl::overflow_integer<L, Tag>>(a);
                auto wr = cnl::_impl::from_rep<cnl::overflow_integer<R, Tag>>(b);
                if constexpr (O::id == 0) w += wr;
                else if constexpr (O::id == 1) w -= wr;
                else if constexpr (O::id == 2) w *= wr;
                else w /= wr;
                got = X::of(cnl::_impl::to_rep(w));
            });
            bool nt = near_bound<L>(e) || near_bound<Res>(e) || is_boundary(a) || is_boundary(b);
            auto in = [&] { return istr(a) + " " + O::name + "= " + istr(b); };
            if (satisfies(x, TG::id, o, got)) {
                t.held(o, nt);
                if (x.pol) t.classes[x.pol > 0 ? "signalled+" : "signalled-"]++;
                t.sample(nt, in, [&] { return exp_str(x, TG::id); }, [&] { return outcome_str(o, got.str()); });
            } else {
                std::string cls = is_c07_event(o, TG::id) ? event_class(o, TG::id, x.pol) : std::string("wrong:") + (x.pol == 0 ? "in-range" : x.pol > 0 ? "overflow+" : "overflow-") + "->" + kind_name(o.kind);
                bool signed_operand_negative = (is_sgn<L> && xa.neg) || (is_sgn<R> && xb.neg);
                if constexpr ((is_sgn<L> != is_sgn<R>) && !is_sgn<Res>) {
                    if (cls.rfind("wrong:", 0) == 0 && signed_operand_negative) {
                        // defect model: the operation is performed on the converted operands, then converted (checked) to L
                        Res ca = (Res)a, cb = (Res)b, m = 0;
                        if constexpr (O::id == 0) m = (Res)(ca + cb);
                        else if constexpr (O::id == 1) m = (Res)(ca - cb);
                        else if constexpr (O::id == 2) m = (Res)(ca * cb);
                        else m = cb ? (Res)(ca / cb) : (Res)0;
                        Exp x2 = expect_from_exact<L>(X::of(m));
                        if (satisfies(x2, TG::id, o, got)) cls = std::string("mixed_sign_unsigned_result_negative_operand:compound:") + (O::id == 3 ? "div" : "addsubmul");
                    }
                }
                t.violation(cls, o, in(), exp_str(x, TG::id), outcome_str(o, got.str()), nt);
            }
        }
    t.emit();
}

template<class TG, class L>
void incdec(char const* desc)
{
    if (!kernel_selected(desc)) return;
    using Tag = typename TG::tag;
    Tally t(desc);
    std::vector<L> as;
    if constexpr (width_of<L> <= 16) as = all_values<L>();
    else as = lattice<L>();
    for (L a : as)
        for (int form = 0; form < 4 && !t.closed; ++form) {
            X e = X::of(a) + X::from_i(form < 2 ? 1 : -1);
            // a (op)= 1 : computed in decltype(L{} + 1), converted back to L
            Exp x = expect_from_exact<L>(e);
            X got, ret;
            Outcome o = guarded([&] {
                auto w = cnl::_impl::from_rep<cnl::overflow_integer<L, Tag>>(a);
                if (form == 0) ret = X::of(cnl::_impl::to_rep(++w));
                else if (form == 1) ret = X::of(cnl::_impl::to_rep(w++));
                else if (form == 2) ret = X::of(cnl::_impl::to_rep(--w));
                else ret = X::of(cnl::_impl::to_rep(w--));
                got = X::of(cnl::_impl::to_rep(w));
            });
            char const* fn[] = {"++x", "x++", "--x", "x--"};
            bool nt = near_bound<L>(e) || is_boundary(a);
            bool ok = satisfies(x, TG::id, o, got);
            if (ok && o.kind == VALUE) ok = (form == 1 || form == 3) ? ret == X::of(a) : ret == got;
            if (ok) {
                t.held(o, nt);
                if (x.pol) t.classes[x.pol > 0 ? "signalled+" : "signalled-"]++;
                t.sample(nt, [&] { return std::string(fn[form]) + " x=" + istr(a); }, [&] { return exp_str(x, TG::id); }, [&] { return outcome_str(o, got.str()); });
            } else {
                std::string cls = is_c07_event(o, TG::id) ? event_class(o, TG::id, x.pol) : std::string("wrong:") + (x.pol == 0 ? "in-range" : x.pol > 0 ? "overflow+" : "overflow-") + "->" + kind_name(o.kind);
                t.violation(cls, o, std::string(fn[form]) + " x=" + istr(a), exp_str(x, TG::id), outcome_str(o, got.str() + ",ret=" + ret.str()), nt);
            }
        }
    t.emit();
}
}  // namespace c06
