// E-native (C12): native-tag wrappers compute what bare integers compute (same value, same promoted result type).
#pragma once
#include "harness/c01.h"

#include <cnl/all.h>

namespace c12 {
using namespace vf;
using c01::fits;
using c01::promoted_t;

enum Op { ADD, SUB, MUL, DIV, MOD, AND, OR, XOR, SHL, SHR, LT, LE, GT, GE, EQ, NE, UMINUS, UPLUS, UNOT,
          AADD, ASUB, AMUL, ADIV, AMOD, AAND, AOR, AXOR, ASHL, ASHR, PREINC, POSTINC, PREDEC, POSTDEC };
inline char const* opname(int o)
{
    static char const* n[] = {"+", "-", "*", "/", "%", "&", "|", "^", "<<", ">>", "<", "<=", ">", ">=", "==", "!=", "u-", "u+", "u~",
                              "+=", "-=", "*=", "/=", "%=", "&=", "|=", "^=", "<<=", ">>=", "++x", "x++", "--x", "x--"};
    return n[o];
}
// is the built-in expression defined (no UB) for these operand values?  (C++20: << of negative values is defined)
template<class T>
bool defined_ref(int op, T a, T b)
{
    using P = promoted_t<T>;
    X A = X::of(a), B = X::of(b);
    int base = op >= AADD && op <= ASHR ? op - AADD : op;
    auto fitsP = [&](X const& v) { return !is_sgn<P> || fits<P>(v); };
    switch (op) {
    case PREINC: case POSTINC: return fitsP(A + X::from_u(1));
    case PREDEC: case POSTDEC: return fitsP(A - X::from_u(1));
    case UMINUS: return fitsP(-A);
    default: break;
    }
    switch (base) {
    case ADD: return fitsP(A + B);
    case SUB: return fitsP(A - B);
    case MUL: return fitsP(A * B);
    case DIV: case MOD: return !B.zero() && !(is_sgn<P> && A == xmin<P>() && B == X::from_i(-1));
    case SHL: case SHR: return !B.neg && B < X::from_u(width_of<P>);
    default: return true;
    }
}

template<class R, class E> int same(R const& r, E const& e)
{
    if (!std::is_same_v<R, E>) return 2;
    return r == e ? 0 : 1;
}

template<class W, class T, int Oper>
void native(char const* desc)
{
    if (!kernel_selected(desc)) return;
    Tally t(desc);
    Rng rng(mix(env_seed(), hash_str(desc)));
    bool exh16 = env_long("VERIF_EXH16", 0) && width_of<T> == 16;
    std::vector<T> as, bs;
    if constexpr (width_of<T> <= 8) as = all_values<T>();
    else if constexpr (width_of<T> == 16) { if (exh16) as = all_values<T>(); else as = lattice<T>(); }
    else as = lattice<T>();
    bs = as;
    t.exhaustive = width_of<T> <= 8 || exh16;
    size_t nd = as.size();
    if (!t.exhaustive) for (int i = 0; i < 40; ++i) { as.push_back(rand_val<T>(rng)); bs.push_back(rand_val<T>(rng)); }
    constexpr bool unary = Oper == UMINUS || Oper == UPLUS || Oper == UNOT || Oper >= PREINC;
    if (unary) bs.assign(1, T{0});
    for (size_t i = 0; i < as.size() && !t.closed; ++i)
        for (size_t j = 0; j < bs.size(); ++j) {
            T a = as[i], b = bs[j];
            if (!defined_ref<T>(Oper, a, b)) { ++t.ood; continue; }
            int rc = 0;
            std::string got, want;
            Outcome o = guarded([&] {
                auto show = [&](auto const& r, auto const& e) { got = istr(r); want = istr(e); };
                W wa(a), wb(b);
                (void)wb;
#define VF_BIN(OP) { auto r = cnl::unwrap(wa OP wb); auto e = (a OP b); rc = same(r, e); show(r, e); }
#define VF_ASG(OP) { W x(a); x OP wb; T y = a; y OP b; auto r = cnl::unwrap(x); rc = same(r, y); show(r, y); }
                if constexpr (Oper == ADD) VF_BIN(+)
                else if constexpr (Oper == SUB) VF_BIN(-)
                else if constexpr (Oper == MUL) VF_BIN(*)
                else if constexpr (Oper == DIV) VF_BIN(/)
                else if constexpr (Oper == MOD) VF_BIN(%)
                else if constexpr (Oper == AND) VF_BIN(&)
                else if constexpr (Oper == OR) VF_BIN(|)
                else if constexpr (Oper == XOR) VF_BIN(^)
                else if constexpr (Oper == SHL) VF_BIN(<<)
                else if constexpr (Oper == SHR) VF_BIN(>>)
                else if constexpr (Oper == LT) VF_BIN(<)
                else if constexpr (Oper == LE) VF_BIN(<=)
                else if constexpr (Oper == GT) VF_BIN(>)
                else if constexpr (Oper == GE) VF_BIN(>=)
                else if constexpr (Oper == EQ) VF_BIN(==)
                else if constexpr (Oper == NE) VF_BIN(!=)
                else if constexpr (Oper == UMINUS) { auto r = cnl::unwrap(-wa); auto e = -a; rc = same(r, e); show(r, e); }
                else if constexpr (Oper == UPLUS) { auto r = cnl::unwrap(+wa); auto e = +a; rc = same(r, e); show(r, e); }
                else if constexpr (Oper == UNOT) { auto r = cnl::unwrap(~wa); auto e = ~a; rc = same(r, e); show(r, e); }
                else if constexpr (Oper == AADD) VF_ASG(+=)
                else if constexpr (Oper == ASUB) VF_ASG(-=)
                else if constexpr (Oper == AMUL) VF_ASG(*=)
                else if constexpr (Oper == ADIV) VF_ASG(/=)
                else if constexpr (Oper == AMOD) VF_ASG(%=)
                else if constexpr (Oper == AAND) VF_ASG(&=)
                else if constexpr (Oper == AOR) VF_ASG(|=)
                else if constexpr (Oper == AXOR) VF_ASG(^=)
                else if constexpr (Oper == ASHL) VF_ASG(<<=)
                else if constexpr (Oper == ASHR) VF_ASG(>>=)
                else {
                    W x(a);
                    T y = a;
                    T rv, ev;
                    if constexpr (Oper == PREINC) { rv = cnl::unwrap(++x); ev = ++y; }
                    else if constexpr (Oper == POSTINC) { rv = cnl::unwrap(x++); ev = y++; }
                    else if constexpr (Oper == PREDEC) { rv = cnl::unwrap(--x); ev = --y; }
                    else { rv = cnl::unwrap(x--); ev = y--; }
                    auto xs = cnl::unwrap(x);
                    rc = (!std::is_same_v<decltype(xs), T>) ? 2 : (rv == ev && xs == y) ? 0 : 1;
                    got = istr(rv) + "," + istr(xs);
                    want = istr(ev) + "," + istr(y);
                }
#undef VF_BIN
#undef VF_ASG
            });
            bool nt = i < nd && j < (unary ? 1 : nd) && (is_boundary(a) || is_boundary(b));
            auto in = [&] { return unary ? std::string(opname(Oper)) + " " + istr(a) : istr(a) + " " + opname(Oper) + " " + istr(b); };
            if (o.kind == VALUE && rc == 0) {
                t.held(o, nt);
                t.sample(nt, in, [&] { return want; }, [&] { return got; });
            } else
                t.violation(o.kind != VALUE ? kind_name(o.kind) : rc == 2 ? "result_type_differs_from_builtin" : "value_differs_from_builtin", o, in(), want, outcome_str(o, got), nt);
        }
    t.emit();
}

// a bare built-in integer on one side of a native-tag wrapper: W(a) op b and b op W(a) vs a op b (value and result type)
template<class W, class T, class T2, int Oper>
void native_mixed(char const* desc)
{
    if (!kernel_selected(desc)) return;
    Tally t(desc);
    Rng rng(mix(env_seed(), hash_str(desc)));
    auto as = values_for<T>();
    auto bs = values_for<T2>();
    size_t na = as.size(), nb = bs.size();
    if (width_of<T> > 8) for (int i = 0; i < 30; ++i) as.push_back(rand_val<T>(rng));
    if (width_of<T2> > 8) for (int i = 0; i < 30; ++i) bs.push_back(rand_val<T2>(rng));
    using P = decltype(T{} + T2{});
    for (size_t i = 0; i < as.size() && !t.closed; ++i)
        for (size_t j = 0; j < bs.size(); ++j) {
            T a = as[i];
            T2 b = bs[j];
            X A = X::of(a), B = X::of(b);
            // the built-in twin must be defined (arithmetic in the common type P)
            bool def = true;
            if (Oper == ADD) def = !is_sgn<P> || (fits<P>(A + B));
            else if (Oper == SUB) def = !is_sgn<P> || (fits<P>(A - B) && fits<P>(B - A));
            else if (Oper == MUL) def = !is_sgn<P> || fits<P>(A * B);
            else if (Oper == DIV || Oper == MOD) def = !A.zero() && !B.zero() && !(is_sgn<P> && ((A == xmin<P>() && B == X::from_i(-1)) || (B == xmin<P>() && A == X::from_i(-1))));
            if (!def) { ++t.ood; continue; }
            int rc = 0;
            std::string got, want;
            Outcome o = guarded([&] {
                W wa(a);
                auto both = [&](auto const& r1, auto const& e1, auto const& r2, auto const& e2) {
                    int c1 = same(r1, e1), c2 = same(r2, e2);
                    rc = c1 ? c1 : c2;
                    got = istr(r1) + "," + istr(r2);
                    want = istr(e1) + "," + istr(e2);
                };
#define VF_MIX(OP) both(cnl::unwrap(wa OP b), (a OP b), cnl::unwrap(b OP wa), (b OP a));
                if constexpr (Oper == ADD) VF_MIX(+)
                else if constexpr (Oper == SUB) VF_MIX(-)
                else if constexpr (Oper == MUL) VF_MIX(*)
                else if constexpr (Oper == DIV) VF_MIX(/)
                else if constexpr (Oper == MOD) VF_MIX(%)
                else if constexpr (Oper == AND) VF_MIX(&)
                else if constexpr (Oper == OR) VF_MIX(|)
                else if constexpr (Oper == XOR) VF_MIX(^)
                else if constexpr (Oper == LT) VF_MIX(<)
                else if constexpr (Oper == LE) VF_MIX(<=)
                else if constexpr (Oper == GT) VF_MIX(>)
                else if constexpr (Oper == GE) VF_MIX(>=)
                else if constexpr (Oper == EQ) VF_MIX(==)
                else VF_MIX(!=)
#undef VF_MIX
            });
            bool nt = i < na && j < nb && (is_boundary(a) || is_boundary(b));
            auto in = [&] { return istr(a) + " " + opname(Oper) + " " + istr(b) + " (wrapper op bare, bare op wrapper)"; };
            if (o.kind == VALUE && rc == 0) {
                t.held(o, nt);
                t.sample(nt, in, [&] { return want; }, [&] { return got; });
            } else
                t.violation(o.kind != VALUE ? kind_name(o.kind) : rc == 2 ? "result_type_differs_from_builtin" : "value_differs_from_builtin", o, in(), want, outcome_str(o, got), nt);
        }
    t.emit();
}

// a cnl::constant<N> on one side of a native-tag wrapper: W(a) op constant<N> and constant<N> op W(a) vs a op N (value and result type)
template<class W, class T, int Oper, auto N>
void native_const(char const* desc)
{
    if (!kernel_selected(desc)) return;
    Tally t(desc);
    Rng rng(mix(env_seed(), hash_str(desc)));
    auto as = values_for<T>();
    size_t na = as.size();
    if (width_of<T> > 8) for (int i = 0; i < 200; ++i) as.push_back(rand_val<T>(rng));
    using T2 = std::remove_cv_t<decltype(N)>;
    using P = decltype(T{} + T2{});
    constexpr T2 b = N;
    for (size_t i = 0; i < as.size() && !t.closed; ++i) {
        T a = as[i];
        X A = X::of(a), B = X::of(b);
        bool def = true;
        if (Oper == ADD) def = !is_sgn<P> || (fits<P>(A + B));
        else if (Oper == SUB) def = !is_sgn<P> || (fits<P>(A - B) && fits<P>(B - A));
        else if (Oper == MUL) def = !is_sgn<P> || fits<P>(A * B);
        else if (Oper == DIV || Oper == MOD) def = !A.zero() && !B.zero() && !(is_sgn<P> && ((A == xmin<P>() && B == X::from_i(-1)) || (B == xmin<P>() && A == X::from_i(-1))));
        if (!def) { ++t.ood; continue; }
        int rc = 0;
        std::string got, want;
        Outcome o = guarded([&] {
            W wa(a);
            constexpr cnl::constant<N> c{};
            auto both = [&](auto const& r1, auto const& e1, auto const& r2, auto const& e2) {
                int c1 = same(r1, e1), c2 = same(r2, e2);
                rc = c1 ? c1 : c2;
                got = istr(r1) + "," + istr(r2);
                want = istr(e1) + "," + istr(e2);
            };
#define VF_MIX(OP) both(cnl::unwrap(wa OP c), (a OP b), cnl::unwrap(c OP wa), (b OP a));
            if constexpr (Oper == ADD) VF_MIX(+)
            else if constexpr (Oper == SUB) VF_MIX(-)
            else if constexpr (Oper == MUL) VF_MIX(*)
            else if constexpr (Oper == DIV) VF_MIX(/)
            else if constexpr (Oper == MOD) VF_MIX(%)
            else if constexpr (Oper == AND) VF_MIX(&)
            else if constexpr (Oper == OR) VF_MIX(|)
            else if constexpr (Oper == XOR) VF_MIX(^)
            else if constexpr (Oper == LT) VF_MIX(<)
            else if constexpr (Oper == LE) VF_MIX(<=)
            else if constexpr (Oper == GT) VF_MIX(>)
            else if constexpr (Oper == GE) VF_MIX(>=)
            else if constexpr (Oper == EQ) VF_MIX(==)
            else VF_MIX(!=)
#undef VF_MIX
        });
        bool nt = i < na && is_boundary(a);
        auto in = [&] { return istr(a) + " " + opname(Oper) + " constant<" + istr(b) + "> (wrapper op constant, constant op wrapper)"; };
        if (o.kind == VALUE && rc == 0) {
            t.held(o, nt);
            t.sample(nt, in, [&] { return want; }, [&] { return got; });
        } else
            t.violation(o.kind != VALUE ? kind_name(o.kind) : rc == 2 ? "result_type_differs_from_builtin" : "value_differs_from_builtin", o, in(), want, outcome_str(o, got), nt);
    }
    t.emit();
}

// documented fixed-point kernels vs their hand-written shift-and-operate twins
enum Kern { MULWIDEN, MIXADD, AVERAGE, SQUARE, INCDEC, MIXCMP, MIXSUB, MIXOR };
template<class T, int E1, int E2, int K, int Radix = 2>
void fixedpoint(char const* desc)
{
    if (!kernel_selected(desc)) return;
    using A = cnl::scaled_integer<T, cnl::power<E1, Radix>>;
    using B = cnl::scaled_integer<T, cnl::power<E2, Radix>>;
    // the hand-written twin aligns the coarser operand by multiplying with Radix^k (a shift for radix 2)
    auto shl = [](X const& v, int k) { return v * c01::xipow(Radix, k); };
    using P = promoted_t<T>;
    Tally t(desc);
    Rng rng(mix(env_seed(), hash_str(desc)));
    auto as = values_for<T>();
    size_t nd = as.size();
    if (width_of<T> > 8) for (int i = 0; i < 60; ++i) as.push_back(rand_val<T>(rng));
    for (size_t i = 0; i < as.size() && !t.closed; ++i)
        for (size_t j = 0; j < as.size(); ++j) {
            T ra = as[i], rb = as[j];
            X xa = X::of(ra), xb = X::of(rb), want;
            bool def = true;
            int wexp = 0;
            if (K == MULWIDEN) { want = xa * xb; def = fits<P>(want); wexp = E1 + E2; }
            else if (K == SQUARE) { want = xa * xa; def = fits<P>(want); wexp = 2 * E1; }
            else if (K == MIXADD) {
                constexpr int sh = E2 > E1 ? E2 - E1 : E1 - E2;
                X sa = E1 > E2 ? shl(xa, sh) : xa, sb = E2 > E1 ? shl(xb, sh) : xb;
                want = sa + sb; def = fits<P>(sa) && fits<P>(sb) && fits<P>(want); wexp = E1 < E2 ? E1 : E2;
            } else if (K == MIXSUB || K == MIXOR) {
                constexpr int sh = E2 > E1 ? E2 - E1 : E1 - E2;
                X sa = E1 > E2 ? shl(xa, sh) : xa, sb = E2 > E1 ? shl(xb, sh) : xb;
                def = fits<P>(sa) && fits<P>(sb);
                if (K == MIXSUB) { want = sa - sb; def = def && fits<P>(want); }
                else if (def) want = X::of((P)(c01::from_x<P>(sa) | c01::from_x<P>(sb)));
                wexp = E1 < E2 ? E1 : E2;
            } else if (K == AVERAGE) { want = tdiv(xa + xb, X::from_u(2)); def = fits<P>(xa + xb); wexp = E1; }
            else if (K == MIXCMP) {
                // hand-written twin: align the coarser operand with a shift, then compare the ints (all six operators packed into one number)
                constexpr int sh = E2 > E1 ? E2 - E1 : E1 - E2;
                X sa = E1 > E2 ? shl(xa, sh) : xa, sb = E2 > E1 ? shl(xb, sh) : xb;
                def = fits<P>(sa) && fits<P>(sb);
                want = X::from_i((sa < sb) * 1 + (sa <= sb) * 2 + (sa > sb) * 4 + (sa >= sb) * 8 + (sa == sb) * 16 + (sa != sb) * 32);
                wexp = 0;
            }
            else { want = xa + shl(X::from_u(1), -E1); def = E1 <= 0 && fits<T>(want) && fits<P>(shl(X::from_u(1), -E1)); wexp = E1; }
            if (!def) { ++t.ood; continue; }
            X got;
            int gexp = 0;
            bool extra = true;
            Outcome o = guarded([&] {
                A a = cnl::_impl::from_rep<A>(ra);
                B b = cnl::_impl::from_rep<B>(rb);
                if constexpr (K == MULWIDEN) { auto r = a * b; got = c01::deepval(r); gexp = cnl::_impl::tag_of_t<decltype(r)>::exponent; extra = std::is_same_v<std::remove_cvref_t<decltype(cnl::_impl::to_rep(r))>, decltype(ra * rb)>; }
                else if constexpr (K == SQUARE) { auto r = a * a; got = c01::deepval(r); gexp = cnl::_impl::tag_of_t<decltype(r)>::exponent; }
                else if constexpr (K == MIXADD) { auto r = a + b; got = c01::deepval(r); gexp = cnl::_impl::tag_of_t<decltype(r)>::exponent; }
                else if constexpr (K == MIXSUB) { auto r = a - b; got = c01::deepval(r); gexp = cnl::_impl::tag_of_t<decltype(r)>::exponent; }
                else if constexpr (K == MIXOR) { auto r = a | b; got = c01::deepval(r); gexp = cnl::_impl::tag_of_t<decltype(r)>::exponent; }
                else if constexpr (K == AVERAGE) { auto r = (a + cnl::_impl::from_rep<A>(rb)) / 2; got = c01::deepval(r); gexp = cnl::_impl::tag_of_t<decltype(r)>::exponent; }
                else if constexpr (K == MIXCMP) { got = X::from_i((a < b) * 1 + (a <= b) * 2 + (a > b) * 4 + (a >= b) * 8 + (a == b) * 16 + (a != b) * 32); gexp = 0; }
                else {
                    A x = a;
                    A pre = ++x;
                    A y = a;
                    A post = y++;
                    A z = x;
                    --z;
                    got = c01::deepval(x);
                    gexp = E1;
                    extra = c01::deepval(pre) == got && c01::deepval(post) == xa && c01::deepval(y) == got && c01::deepval(z) == xa;
                }
            });
            bool nt = i < nd && j < nd && (is_boundary(ra) || is_boundary(rb));
            auto in = [&] { return istr(ra) + "e" + std::to_string(E1) + " , " + istr(rb) + "e" + std::to_string(E2); };
            if (o.kind == VALUE && got == want && gexp == wexp && extra) {
                t.held(o, nt);
                t.sample(nt, in, [&] { return want.str() + "e" + std::to_string(wexp); }, [&] { return got.str() + "e" + std::to_string(gexp); });
            } else
                t.violation(o.kind != VALUE ? kind_name(o.kind) : "differs_from_shift_and_operate_twin", o, in(), want.str() + "e" + std::to_string(wexp), outcome_str(o, got.str() + "e" + std::to_string(gexp)), nt);
            if (K == SQUARE || K == INCDEC) break;
        }
    t.emit();
}
}  // namespace c12
