// E-bits (C18): cnl <bit>-like utilities and digit counting against naive bit-loop references.
#pragma once
#include "rt/rt.h"

#include <cnl/bit.h>
#include <cnl/numeric.h>

namespace c18 {
using namespace vf;

// ---- references: naive loops over the bits, valid for every width
template<class U> int ref_clz(U x) { int n = 0; for (int i = width_of<U> - 1; i >= 0 && !((x >> i) & 1); --i) ++n; return n; }
template<class U> int ref_clo(U x) { int n = 0; for (int i = width_of<U> - 1; i >= 0 && ((x >> i) & 1); --i) ++n; return n; }
template<class U> int ref_ctz(U x) { int n = 0; for (int i = 0; i < width_of<U> && !((x >> i) & 1); ++i) ++n; return n; }
template<class U> int ref_cto(U x) { int n = 0; for (int i = 0; i < width_of<U> && ((x >> i) & 1); ++i) ++n; return n; }
template<class U> int ref_pop(U x) { int n = 0; for (int i = 0; i < width_of<U>; ++i) n += (int)((x >> i) & 1); return n; }
template<class U> int ref_bitlen(U x) { return width_of<U> - ref_clz(x); }
template<class U> U ref_rotl(U x, unsigned s)
{
    constexpr unsigned w = width_of<U>;
    U r = 0;
    for (unsigned i = 0; i < w; ++i)
        if ((x >> i) & 1) r |= (U)((U)1 << ((i + s) % w));
    return r;
}
template<class U> U ref_rotr(U x, unsigned s)
{
    constexpr unsigned w = width_of<U>;
    return ref_rotl(x, (w - s % w) % w);
}

template<class T> struct uns { using type = std::make_unsigned_t<T>; };
template<> struct uns<i128> { using type = u128; };
template<> struct uns<u128> { using type = u128; };
template<class T> using uns_t = typename uns<T>::type;

// value workload for unary kernels
template<class T, class F>
void for_values(Tally& t, F&& f)
{
    constexpr int w = width_of<T>;
    if constexpr (w <= 16) {
        t.exhaustive = true;
        for (long x = (long)tmin<T>(); x <= (long)tmax<T>(); ++x) f((T)x, true);
    } else {
        auto L = lattice<T>();
        for (T x : L) f(x, true);
        long exh32 = env_long("VERIF_EXH32", 0);
        if (w == 32 && exh32) {
            t.exhaustive = true;
            for (uint64_t x = 0; x <= 0xffffffffull; ++x) f((T)(uint32_t)x, false);
        } else {
            long n = env_long("VERIF_N", 200000);
            Rng r(mix(env_seed(), hash_str(t.kernel.c_str())));
            for (long i = 0; i < n && !t.closed; ++i) f(rand_val<T>(r), false);
            if (w == 32) {  // dense stride so that every 2^12-block of the 32-bit space is visited
                uint32_t off = (uint32_t)r.below(4096);
                for (uint64_t x = off; x <= 0xffffffffull; x += 4096) f((T)(uint32_t)x, false);
            }
        }
    }
}

// one unary kernel: result of CNL function vs reference, any trap is a violation
template<class T, class CF, class RF, class DF>
void unary(char const* desc, CF cnl_fn, RF ref_fn, DF in_domain)
{
    if (!kernel_selected(desc)) return;
    Tally t(desc);
    for_values<T>(t, [&](T x, bool distinct) {
        if (t.closed) { ++t.notrun; return; }
        if (!in_domain(x)) { ++t.ood; return; }
        i128 got = 0;
        Outcome o = guarded([&] { got = (i128)cnl_fn(x); });
        i128 want = (i128)ref_fn(x);
        bool nt = distinct && (is_boundary(x) || want == 0 || want == width_of<T> || want == width_of<T> - 1);
        if (o.kind == VALUE && got == want) {
            t.held(o, nt);
            t.sample(nt, [&] { return istr(x); }, [&] { return str(want); }, [&] { return str(got); });
        } else {
            t.violation(o.kind == VALUE ? "wrong_value" : kind_name(o.kind), o, istr(x), str(want), outcome_str(o, str(got)), nt);
        }
    });
    t.emit();
}

template<class U>
void rotations(char const* desc, bool left)
{
    if (!kernel_selected(desc)) return;
    Tally t(desc);
    constexpr unsigned w = width_of<U>;
    std::vector<U> xs = lattice<U>();
    Rng r(mix(env_seed(), hash_str(desc)));
    size_t nlat = xs.size();
    for (int i = 0; i < 200; ++i) xs.push_back(rand_val<U>(r));
    std::vector<unsigned> ss;
    for (unsigned s = 0; s <= 2 * w + 1; ++s) ss.push_back(s);
    for (unsigned s : {3 * w, 4 * w, 1000u * w, 0x7fffffffu, 0x80000000u, 0xffffffffu, 0xffffffffu - w + 1, (0xffffffffu / w) * w}) ss.push_back(s);
    for (size_t i = 0; i < xs.size() && !t.closed; ++i)
        for (unsigned s : ss) {
            U x = xs[i];
            U got = 0;
            Outcome o = guarded([&] { got = left ? cnl::rotl(x, s) : cnl::rotr(x, s); });
            U want = left ? ref_rotl(x, s) : ref_rotr(x, s);
            bool nt = i < nlat && (s % w == 0 || s % w == 1 || s % w == w - 1 || is_boundary(x));
            if (o.kind == VALUE && got == want) {
                t.held(o, nt);
                t.sample(nt, [&] { return istr(x) + " by " + std::to_string(s); }, [&] { return istr(want); }, [&] { return istr(got); });
            } else
                t.violation(o.kind == VALUE ? "wrong_value" : kind_name(o.kind), o, istr(x) + " by " + std::to_string(s), istr(want), outcome_str(o, istr(got)), nt);
        }
    t.emit();
}

inline auto always = [](auto) { return true; };

template<class U>
void unsigned_suite(std::string const& tn)
{
    constexpr int w = width_of<U>;
    auto d = [&](char const* f) { return std::string(f) + "<" + tn + ">"; };
    unary<U>(d("countl_zero").c_str(), [](U x) { return cnl::countl_zero(x); }, [](U x) { return ref_clz(x); }, always);
    unary<U>(d("countl_one").c_str(), [](U x) { return cnl::countl_one(x); }, [](U x) { return ref_clo(x); }, always);
    unary<U>(d("countr_zero").c_str(), [](U x) { return cnl::countr_zero(x); }, [](U x) { return ref_ctz(x); }, always);
    unary<U>(d("countr_one").c_str(), [](U x) { return cnl::countr_one(x); }, [](U x) { return ref_cto(x); }, always);
    unary<U>(d("popcount").c_str(), [](U x) { return cnl::popcount(x); }, [](U x) { return ref_pop(x); }, always);
    unary<U>(d("ispow2").c_str(), [](U x) { return cnl::ispow2(x) ? 1 : 0; }, [](U x) { return ref_pop(x) == 1 ? 1 : 0; }, always);
    unary<U>(d("floor2").c_str(), [](U x) { return cnl::floor2(x); }, [](U x) { return x ? (U)((U)1 << (ref_bitlen(x) - 1)) : (U)0; }, always);
    // ceil2(x) for x > 2^(w-1) is not representable (std::bit_ceil is UB there): out of domain; ceil2(0)==0 documented
    unary<U>(d("ceil2").c_str(), [](U x) { return cnl::ceil2(x); },
             [](U x) { return x <= 1 ? (U)x : (U)((U)1 << ref_bitlen((U)(x - 1))); },
             [](U x) { return x <= (U)((U)1 << (w - 1)); });
    unary<U>(d("log2p1").c_str(), [](U x) { return cnl::log2p1(x); }, [](U x) { return ref_bitlen(x); }, always);
    unary<U>(d("countl_rb").c_str(), [](U x) { return cnl::countl_rb(x); }, [](U x) { return ref_clz(x); }, always);
    unary<U>(d("countr_used").c_str(), [](U x) { return cnl::countr_used(x); }, [](U x) { return ref_bitlen(x); }, always);
    unary<U>(d("used_digits").c_str(), [](U x) { return cnl::used_digits(x); }, [](U x) { return ref_bitlen(x); }, always);
    unary<U>(d("leading_bits").c_str(), [](U x) { return cnl::leading_bits(x); }, [](U x) { return ref_clz(x); }, always);
    unary<U>(d("trailing_bits").c_str(), [](U x) { return cnl::trailing_bits(x); }, [](U x) { return x ? ref_ctz(x) : 0; }, always);
    unary<U>(d("used_digits10").c_str(), [](U x) { return cnl::used_digits(x, 10); }, [](U x) { int n = 0; while (x) { x /= 10; ++n; } return n; }, always);
    rotations<U>(d("rotl").c_str(), true);
    rotations<U>(d("rotr").c_str(), false);
}

template<class S>
void signed_suite(std::string const& tn)
{
    using U = uns_t<S>;
    constexpr int w = width_of<S>;
    auto d = [&](char const* f) { return std::string(f) + "<" + tn + ">"; };
    // value bits of the two's-complement form: bit length of v (v>=0) or of -v-1 (v<0)
    auto vbits = [](S x) { U m = x < 0 ? (U) ~(U)x : (U)x; return ref_bitlen(m); };
    unary<S>(d("countl_rsb").c_str(), [](S x) { return cnl::countl_rsb(x); }, [=](S x) { return w - 1 - vbits(x); }, always);
    unary<S>(d("countl_rb").c_str(), [](S x) { return cnl::countl_rb(x); }, [=](S x) { return w - 1 - vbits(x); }, always);
    unary<S>(d("countr_used").c_str(), [](S x) { return cnl::countr_used(x); }, [=](S x) { return vbits(x); }, always);
    unary<S>(d("used_digits").c_str(), [](S x) { return cnl::used_digits(x); }, [=](S x) { return vbits(x); }, always);
    unary<S>(d("leading_bits").c_str(), [](S x) { return cnl::leading_bits(x); }, [=](S x) { return w - 1 - vbits(x); }, always);
    unary<S>(d("trailing_bits").c_str(), [](S x) { return cnl::trailing_bits(x); }, [](S x) { return x ? ref_ctz((U)x) : 0; }, always);
}
}  // namespace c18
