// E-shadow (C11): static_integer / static_number expression chains executed in lock-step with exact shadow values.
// Every step performs the CNL operation on the values produced by the previous steps, computes the exact result
// (rounded by the type's rounding mode where the operation loses precision) and compares immediately.
#pragma once
#include "harness/c08.h"

#include <cnl/static_integer.h>
#include <cnl/static_number.h>

namespace c11 {
using namespace vf;
using c08::round_q;

// ---- deep read/write down to the built-in or multi-limb representation
template<class T>
X deepval(T const& x)
{
    if constexpr (cnl::_impl::is_wrapper<T>) return deepval(cnl::_impl::to_rep(x));
    else if constexpr (cnl::_impl::is_uintwide_v<T>) {
        auto const& r = x.crepresentation();
        using L = std::remove_cvref_t<decltype(r[0])>;
        constexpr int lb = std::numeric_limits<L>::digits;
        X v;
        bool neg = cnl::numbers::signedness_v<T> && (r[r.size() - 1] >> (lb - 1));
        // two's complement -> sign-magnitude, limb by limb (magnitude of a negative value = ~bits + 1), so that a full 256-bit
        // storage does not need 2^256 in the oracle's own 256 bits
        unsigned carry = 1;
        std::vector<u128> mag(r.size());
        for (size_t i = 0; i < r.size(); ++i) {
            u128 limb = (u128)r[i];
            if (neg) {
                limb = ((~limb) & ((((u128)1) << lb) - 1)) + carry;
                carry = (unsigned)(limb >> lb);
                limb &= (((u128)1) << lb) - 1;
            }
            mag[i] = limb;
        }
        for (size_t i = r.size(); i-- > 0;) v = shl(v, lb) + X::from_u(mag[i]);
        return neg ? -v : v;
    } else
        return X::of(x);
}
template<class T>
T deep(X const& raw)
{
    if constexpr (cnl::_impl::is_wrapper<T>) return cnl::_impl::from_rep<T>(deep<cnl::_impl::rep_of_t<T>>(raw));
    else if constexpr (cnl::_impl::is_uintwide_v<T>) {
        T t{};
        auto& a = t.representation();
        using L = std::remove_cvref_t<decltype(a[0])>;
        constexpr int lb = std::numeric_limits<L>::digits;
        X v = raw;
        bool neg = v.neg;
        v.neg = false;  // magnitude; negative values are written as ~(magnitude) + 1, limb by limb
        unsigned carry = 1;
        for (size_t i = 0; i < a.size(); ++i) {
            u128 limb = (u128)(v.m[0] & (uint64_t)(~(L)0));
            if (neg) {
                limb = ((~limb) & ((((u128)1) << lb) - 1)) + carry;
                carry = (unsigned)(limb >> lb);
                limb &= (((u128)1) << lb) - 1;
            }
            a[i] = (L)limb;
            v = shr_mag(v, lb);
        }
        return t;
    } else
        return c01::from_x<T>(raw);
}
template<class T> struct exp_of { static constexpr int value = 0; };
template<class R, int E> struct exp_of<cnl::scaled_integer<R, cnl::power<E, 2>>> { static constexpr int value = E; };

struct Tags {
    int rounding;  // 0 native(trunc), 1 nearest, 2 tie_to_pos_inf, 3 neg_inf
    int overflow;  // 0 saturated, 1 throwing, 2 trapping
};
struct Stop {};  // thrown by a step after it has recorded a violation (ends the chain)

struct Ctx {
    Tally* t;
    Tags tags;
    int step = 0;
    char const* opname = "";
    std::string operands;
    bool nontrivial = false;
    long spurious = 0;
    // expectation of the step in flight (set before the CNL operation runs, so that a signal can be classified)
    std::string hint;   // defect-class hint computed by the step from types only
    X model;            // value a known defect model predicts (valid when has_model)
    bool has_model = false;
    bool pending = false, inexact = false;
    bool exact_outside_ok = false;  // the step's result type cannot widen (run-time shift): the exact value is accepted even outside the declared range
    int over = 0, er = 0;
    X want, hi, lo;
};
inline Ctx* ctx;

template<class T> X lim_hi() { return deepval(std::numeric_limits<T>::max()); }
template<class T> X lim_lo() { return deepval(std::numeric_limits<T>::lowest()); }

// expectation for a step whose CNL result type is R and whose exact value is num/den (in units of 1):
// result rep must be round(num / (den * 2^er)); outside R's limits => the tag's overflow signal (or the clamped bound)
template<class R>
void prepare(X const& num, X const& den, bool lossy)
{
    constexpr int er = exp_of<R>::value;
    X n = num, d = den;
    if (er >= 0) d = shl(d, er); else n = shl(n, -er);
    bool exact_div = trem(n, d).zero();
    ctx->want = exact_div ? tdiv(n, d) : round_q(n, d, ctx->tags.rounding);
    ctx->inexact = !exact_div;
    (void)lossy;
    ctx->hi = lim_hi<R>();
    ctx->lo = lim_lo<R>();
    ctx->over = ctx->want > ctx->hi ? 1 : ctx->want < ctx->lo ? -1 : 0;
    ctx->er = er;
    ctx->pending = true;
}
template<class R>
R verify(R const& r)
{
    ctx->pending = false;
    X got = deepval(r);
    if (x_overflowed) throw Stop{};  // oracle precision exceeded: judge nothing
    int er = ctx->er;
    std::string where = "step " + std::to_string(ctx->step) + ": " + ctx->operands;
    if (ctx->over && ctx->exact_outside_ok && got == ctx->want) {
        // "yields the exact mathematical result": accepted; later steps start from this value
        ctx->t->classes["exact_result_outside_declared_range(info)"]++;
        ctx->nontrivial = true;
    } else if (ctx->over && ctx->has_model && got == ctx->model) {
        // the value a recorded defect model predicts came back where an overflow signal was due
        ctx->t->violation(ctx->hint, Outcome{}, where, "overflow signal (exact " + ctx->want.str() + " e" + std::to_string(er) + ")", got.str() + " e" + std::to_string(er));
        throw Stop{};
    } else if (ctx->over) {
        ctx->nontrivial = true;
        if (ctx->tags.overflow == 0) {
            X clamp = ctx->over > 0 ? ctx->hi : ctx->lo;
            if (got != clamp) {
                ctx->t->violation("saturated_result_not_clamped:" + std::string(ctx->opname), Outcome{}, where, "clamp(" + ctx->want.str() + ") = " + clamp.str() + " e" + std::to_string(er), got.str() + " e" + std::to_string(er));
                throw Stop{};
            }
            ctx->t->classes["saturated_correctly"]++;
        } else {
            // a value came back although the exact result is outside the result type: silent wrong value
            ctx->t->violation("no_overflow_signal:" + std::string(ctx->opname), Outcome{}, where, "overflow signal (exact " + ctx->want.str() + " e" + std::to_string(er) + " outside " + ctx->lo.str() + ".." + ctx->hi.str() + ")", got.str() + " e" + std::to_string(er));
            throw Stop{};
        }
    } else if (got != ctx->want) {
        std::string cls = "silent_wrong_value:" + std::string(ctx->opname);
        if (ctx->has_model && got == ctx->model) cls = ctx->hint;
        else if (ctx->hint == "conv_shift_ge_source_digits") cls = ctx->hint + ":wrong_value";
        ctx->t->violation(cls, Outcome{}, where, ctx->want.str() + " e" + std::to_string(er), got.str() + " e" + std::to_string(er));
        throw Stop{};
    }
    if (ctx->inexact) ctx->nontrivial = true;
    return r;
}
template<class A> std::string show(A const& a) { return deepval(a).str() + "e" + std::to_string(exp_of<A>::value); }

template<class A, class B> void begin(char const* op, A const& a, B const& b)
{
    ++ctx->step;
    ctx->opname = op;
    ctx->hint.clear();
    ctx->has_model = false;
    ctx->operands = show(a) + " " + op + " " + show(b);
}
// value of an operand as a rational num / 2^k (den power of two)
template<class A> void val(A const& a, X& num, X& den)
{
    constexpr int e = exp_of<A>::value;
    num = deepval(a);
    den = X::from_u(1);
    if (e >= 0) num = shl(num, e); else den = shl(den, -e);
}
template<class A, class B> auto add(A const& a, B const& b)
{
    begin("+", a, b);
    X an, ad, bn, bd;
    val(a, an, ad); val(b, bn, bd);
    prepare<decltype(a + b)>(an * bd + bn * ad, ad * bd, false);
    return verify(a + b);
}
template<class A, class B> auto sub(A const& a, B const& b)
{
    begin("-", a, b);
    X an, ad, bn, bd;
    val(a, an, ad); val(b, bn, bd);
    prepare<decltype(a - b)>(an * bd - bn * ad, ad * bd, false);
    return verify(a - b);
}
template<class A, class B> auto mul(A const& a, B const& b)
{
    begin("*", a, b);
    X an, ad, bn, bd;
    val(a, an, ad); val(b, bn, bd);
    prepare<decltype(a * b)>(an * bn, ad * bd, false);
    return verify(a * b);
}
template<class A, class B> auto div(A const& a, B const& b)
{
    begin("/", a, b);
    X an, ad, bn, bd;
    val(a, an, ad); val(b, bn, bd);
    if (bn.zero()) throw Stop{};  // division by zero: outside the domain, chain ends
    X n = an * bd, d = ad * bn;
    if (d.neg) { n = -n; d = -d; }
    prepare<decltype(a / b)>(n, d, true);
    return verify(a / b);
}
template<class A> auto neg(A const& a)
{
    begin("neg", a, a);
    X an, ad;
    val(a, an, ad);
    prepare<decltype(-a)>(-an, ad, false);
    return verify(-a);
}
// shifts by a run-time count: the result type is the operand's, so << can overflow; >> is the arithmetic (floor) shift
template<class A> auto lsh(A const& a, int c)
{
    begin("<<", a, a);
    ctx->operands += " by " + std::to_string(c);
    X an, ad;
    val(a, an, ad);
    prepare<decltype(a << c)>(shl(an, (unsigned)c), ad, false);
    ctx->exact_outside_ok = true;
    auto r = a << c;
    auto v = verify(r);
    ctx->exact_outside_ok = false;
    return v;
}
template<class A> auto rsh(A const& a, int c)
{
    begin(">>", a, a);
    ctx->operands += " by " + std::to_string(c);
    X an, ad;
    val(a, an, ad);
    using R = decltype(a >> c);
    prepare<R>(an, shl(ad, (unsigned)c), true);
    {   // floor, whatever the type's rounding mode
        constexpr int er = exp_of<R>::value;
        X n = an, d = shl(ad, (unsigned)c);
        if (er >= 0) d = shl(d, er); else n = shl(n, -er);
        ctx->want = fdiv(n, d);
        ctx->over = ctx->want > ctx->hi ? 1 : ctx->want < ctx->lo ? -1 : 0;
    }
    return verify(a >> c);
}
template<class T, class A> T conv(A const& a)
{
    begin("conv", a, a);
    X an, ad;
    val(a, an, ad);
    prepare<T>(an, ad, true);
    // known defect classes of the narrowing conversion (predicates on the types and the source value only)
    constexpr int s = exp_of<T>::value - exp_of<A>::value;
    constexpr int D = cnl::digits_v<A>;
    ctx->hint.clear();
    ctx->has_model = false;
    if constexpr (s > 0 && s < D) {
        // elastic >> s of a negative value whose floor is exactly -2^(D-s) leaves elastic_integer<D-s> (KF-C05-01); inside a
        // saturated static_number the intermediate is clamped to -(2^(D-s)-1) without a signal
        if (ctx->tags.overflow == 0 && !ctx->over && ctx->want == -xpow2((unsigned)(D - s))) {
            ctx->model = ctx->want + X::from_u(1);
            ctx->has_model = true;
            ctx->hint = "conv_result_minus_2^(D-s)_clamped_in_source_digits";
        }
    }
    if constexpr (s > 0) {
        if (s >= D) ctx->hint = "conv_shift_ge_source_digits";
        else if (!ctx->has_model && (ctx->tags.rounding == 1 || ctx->tags.rounding == 2)) {
            // the rounding bias is added in the source's digits: under saturation it clamps instead of carrying
            X x = deepval(a), half = xpow2((unsigned)(s - 1)), lim = xpow2((unsigned)D) - X::from_u(1);
            X biased = (ctx->tags.rounding == 1 && x.neg) ? x - half : x + half;
            if (biased > lim || biased < -lim) {
                X cl = biased > lim ? lim : -lim;
                X q = fdiv(cl, xpow2((unsigned)s));
                if (ctx->tags.rounding == 1 && x.neg) q = -fdiv(-cl, xpow2((unsigned)s));
                if (q > ctx->hi) q = ctx->hi;
                if (q < ctx->lo) q = ctx->lo;
                ctx->model = q;
                ctx->has_model = ctx->tags.overflow == 0;
                ctx->hint = "conv_rounding_bias_saturates_in_source_digits";
            }
        }
    }
    return verify(static_cast<T>(a));
}
template<class A, class B> bool less(A const& a, B const& b)
{
    begin("<", a, b);
    X an, ad, bn, bd;
    val(a, an, ad); val(b, bn, bd);
    bool r = a < b, w = an * bd < bn * ad;
    bool e = a == b, we = an * bd == bn * ad;
    if (x_overflowed) throw Stop{};
    if (r != w || e != we) {
        ctx->t->violation("wrong_comparison", Outcome{}, "step " + std::to_string(ctx->step) + ": " + ctx->operands, w ? "true" : "false", r ? "true" : "false");
        throw Stop{};
    }
    return r;
}

// ++x, x++, --x, x-- on a copy of a (exponent 0 only): the stored value becomes a +- 1 (or the overflow signal), the expression's value is
// the new value for the prefix forms and the old one for the postfix forms
template<class A> A incdec(A const& a, int form)
{
    static char const* const names[] = {"++x", "x++", "--x", "x--"};
    begin(names[form], a, a);
    X an, ad;
    val(a, an, ad);
    prepare<A>(form < 2 ? an + ad : an - ad, ad, false);
    A x = a;
    X ret;
    switch (form) {
    case 0: ret = deepval(++x); break;
    case 1: ret = deepval(x++); break;
    case 2: ret = deepval(--x); break;
    default: ret = deepval(x--); break;
    }
    A v = verify(x);
    X expect_ret = (form == 1 || form == 3) ? deepval(a) : deepval(v);
    if (ret != expect_ret) {
        ctx->t->violation(std::string("incdec_expression_value:") + names[form], Outcome{}, "step " + std::to_string(ctx->step) + ": " + ctx->operands, expect_ret.str(), ret.str());
        throw Stop{};
    }
    return v;
}

// construction from a built-in value (integer or floating): T{b} must hold b rounded to T's resolution by T's rounding mode,
// or signal overflow when that is outside T's range
template<class T, class B> T construct(B const& b)
{
    ++ctx->step;
    ctx->opname = "ctor";
    ctx->hint.clear();
    ctx->has_model = false;
    X num, den = X::from_u(1);
    if constexpr (std::is_floating_point_v<B>) {
        int e = 0;
        long double m = frexpl((long double)b, &e);   // b = m * 2^e, |m| in [0.5, 1)
        long double mi = ldexpl(m, 64);                // exact 64-bit integer mantissa
        bool neg = mi < 0;
        u128 mag = (u128)(neg ? -mi : mi);
        num = X::from_u(mag);
        if (neg) num = -num;
        e -= 64;
        if (e >= 0) num = shl(num, e); else den = shl(den, -e);
        char buf[64];
        snprintf(buf, sizeof buf, "%La", (long double)b);
        ctx->operands = std::string("T{") + buf + "}";
    } else {
        num = X::of(b);
        ctx->operands = "T{" + num.str() + "}";
    }
    prepare<T>(num, den, true);
    // known defect model (KF-C11-05): a built-in integer source carries no rounding tag, the scaling to a coarser resolution truncates toward zero
    if constexpr (!std::is_floating_point_v<B> && (exp_of<T>::value > 0)) {
        if (ctx->tags.rounding != 0) {
            X q = tdiv(num, shl(X::from_u(1), exp_of<T>::value));
            if (q > ctx->hi || q < ctx->lo) q = ctx->want;  // (the truncated value does not fit either: no model)
            if (q != ctx->want) { ctx->model = q; ctx->has_model = true; ctx->hint = "ctor_from_builtin_integer_truncates_instead_of_rounding"; }
        }
    }
    ctx->exact_outside_ok = true;   // -2^digits is held exactly by the representation: accepted here, later steps start from it
    auto r = T{b};
    auto v = verify(r);
    ctx->exact_outside_ok = false;
    return v;
}

template<class T, class B> void ctor_kernel(char const* desc, Tags tags)
{
    if (!kernel_selected(desc)) return;
    Rng rng(mix(env_seed(), hash_str(desc)));
    std::vector<X> vals;
    if constexpr (std::is_floating_point_v<B>) {
        // floating sources are passed as (mantissa, exponent) pairs through two leaves
    }
    for (B b : lattice<B>()) vals.push_back(X::of(b));
    for (int i = 0; i < 300; ++i) vals.push_back(X::of(rand_val<B>(rng)));
    std::vector<std::vector<X>> ls{vals};
    run_chain(desc, tags, ls, [&](X const* x) {
        B b = c01::from_x<B>(x[0]);
        auto t = construct<T>(b);
        auto n = neg(t);
        auto s = add(t, t);
        (void)n; (void)s;
    });
}

// leaf values of the declared range +-(2^D - 1) (as rep), boundary lattice + seeded random
template<class T>
std::vector<X> leaves(Rng& rng, int nrand)
{
    std::vector<X> v;
    X hi = lim_hi<T>(), lo = lim_lo<T>();
    int D = cnl::digits_v<T>;
    auto add = [&](X const& x) { if (x >= lo && x <= hi) v.push_back(x); };
    for (int d = 0; d <= 2; ++d) { add(X::from_i(d)); add(X::from_i(-d)); add(hi - X::from_i(d)); add(lo + X::from_i(d)); }
    add(tdiv(hi, X::from_u(2))); add(tdiv(hi, X::from_u(2)) + X::from_u(1)); add(tdiv(lo, X::from_u(2)));
    for (int k = 1; k < D && k < 250; k += (D > 16 ? 3 : 1)) { add(xpow2((unsigned)k)); add(-xpow2((unsigned)k)); add(xpow2((unsigned)k) - X::from_u(1)); }
    for (int i = 0; i < nrand; ++i) {
        X x;
        int bits = (int)rng.below((uint64_t)D + 1);
        for (int w = 0; w < 4; ++w) x.m[w] = rng.next();
        x = shr_mag(x, 256 - (bits ? bits : 1));
        if (!bits) x = X();
        if (rng.next() & 1) x = -x;
        add(x);
    }
    return v;
}

// run one chain body over leaf tuples; Body is a callable (X const*, ...) executing the generated steps
template<class Body>
void run_chain(char const* desc, Tags tags, std::vector<std::vector<X>> const& leafsets, Body&& body)
{
    Tally t(desc);
    Ctx c{&t, tags};
    ctx = &c;
    size_t n = leafsets.size();
    std::vector<size_t> idx(n, 0);
    long budget = env_long("VERIF_CHAIN_CASES", 4000);
    Rng rng(mix(env_seed(), hash_str(desc)));
    // full product if small, otherwise: each leaf value of each operand with random partners
    double total = 1;
    for (auto const& l : leafsets) total *= (double)l.size();
    long cases = total <= (double)budget ? (long)total : budget;
    // when the full product is too large: first the full product of the boundary leaves (0, +-1, +-2, limits -+ 0..2, halves: the
    // first 15 values of leaves<>()), so that every pairing of adjacent limits is met, then the sweep
    long bprod = 1;
    std::vector<long> nb(n);
    for (size_t i = 0; i < n; ++i) { nb[i] = (long)std::min<size_t>(15, leafsets[i].size()); bprod *= nb[i]; }
    if (total <= (double)budget || bprod > budget / 2) bprod = 0;
    for (long k = 0; k < cases && !t.closed; ++k) {
        std::vector<X> xs(n);
        if (total <= (double)budget) {
            long r = k;
            for (size_t i = 0; i < n; ++i) { xs[i] = leafsets[i][(size_t)(r % (long)leafsets[i].size())]; r /= (long)leafsets[i].size(); }
        } else if (k < bprod) {
            long r = k;
            for (size_t i = 0; i < n; ++i) { xs[i] = leafsets[i][(size_t)(r % nb[i])]; r /= nb[i]; }
        } else {
            for (size_t i = 0; i < n; ++i) xs[i] = leafsets[i][(size_t)rng.below(leafsets[i].size())];
            size_t pin = (size_t)k % n;  // sweep one operand systematically
            xs[pin] = leafsets[pin][(size_t)(k / (long)n) % leafsets[pin].size()];
        }
        c.step = 0;
        c.nontrivial = false;
        c.pending = false;
        c.exact_outside_ok = false;
        bool stopped = false;
        x_overflowed = false;
        Outcome o = guarded([&] {
            try { body(xs.data()); } catch (Stop const&) { stopped = true; }
        });
        auto in = [&] { std::string s; for (auto const& x : xs) s += x.str() + " "; return s; };
        if (x_overflowed && (o.kind == VALUE || o.kind == THROW_POS || o.kind == THROW_NEG || o.kind == CNL_ABORT)) {
            // the exact oracle ran out of its own 256 bits somewhere in this chain: not judged (steps record nothing once the flag is set)
            ++t.ood;
            t.classes["oracle_precision_exceeded"]++;
            continue;
        }
        if (o.kind == VALUE) {
            if (!stopped) { t.held(o, c.nontrivial); t.sample(c.nontrivial, in, [&] { return std::string("every step exact / rounded / clamped"); }, [&] { return std::to_string(c.step) + " steps ok"; }); }
            continue;
        }
        bool is_signal = (tags.overflow == 1 && (o.kind == THROW_POS || o.kind == THROW_NEG)) || (tags.overflow == 2 && o.kind == CNL_ABORT && (!strcmp(o.msg, "positive overflow") || !strcmp(o.msg, "negative overflow")));
        if (is_signal && c.pending) {
            int pol = (o.kind == THROW_POS || !strcmp(o.msg, "positive overflow")) ? 1 : -1;
            if (c.over) {
                t.held(o, true);
                t.classes[pol == c.over ? "signalled_correctly" : "signalled_with_other_polarity(info)"]++;
            } else {
                // spurious signal: not a violation of this property (it is C06/C09's business); counted
                t.held(o, false);
                t.classes[std::string("spurious_signal:") + c.opname]++;
            }
            continue;
        }
        std::string cls = std::string("event:") + kind_name(o.kind) + ":" + c.opname;
        if ((o.kind == UB_TRAP || o.kind == SIG) && c.hint == "conv_shift_ge_source_digits") cls = "conv_shift_ge_source_digits:trap";
        if (o.kind == CNL_ABORT) { char const* m = strstr(o.msg, "include/cnl/"); cls += std::string(":") + (m ? m : o.msg); cls = cls.substr(0, 120); }
        t.violation(cls, o, "step " + std::to_string(c.step) + ": " + c.operands + "   leaves: " + in(), "a value or the tag's overflow signal", outcome_str(o, ""));
    }
    t.emit();
    ctx = nullptr;
}
}  // namespace c11
