// E-parse (C15): run-time parse<T>, literal operators and constant-driven factories; every result is reported as type facts +
// value and judged offline (python int / Fraction).
//   R <kid> <tokidx> <KIND> <hex-of-storage>                      run-time parse<T>(token)
//   L <idx> <kind> digits=<d> exp=<e> radix=<r> signed=<s> lo=<..> hi=<..> value=<decimal rep>   literal / factory result
#pragma once
#include "harness/c10.h"
#include "harness/c01.h"

namespace c15 {
using namespace vf;

template<class T>
std::string storage_hex(T const& v)
{
    if constexpr (cnl::_impl::is_wrapper<T>) return c10::hex(v);
    else {
        u128 u = (u128)v;
        char b[40];
        std::string s;
        for (int i = (int)sizeof(T) - 1; i >= 0; --i) { snprintf(b, sizeof b, "%02x", (unsigned)((u >> (8 * i)) & 0xff)); s += b; }
        return s;
    }
}

template<class T>
void parse_run(char const* desc, int kid, char const* const* tokens, int n)
{
    if (!kernel_selected(desc)) return;
    g.cur_kernel = desc;
    printf("{\"t\":\"kd\",\"id\":%d,\"k\":\"%s\",\"bits\":%d,\"signed\":%d}\n", kid, desc, (int)sizeof(T) * 8, (int)cnl::numbers::signedness_v<T>);
    for (int i = 0; i < n; ++i) {
        T v{};
        snprintf(g.cur_input, sizeof g.cur_input, "%.300s", tokens[i]);
        Outcome o = guarded([&] { v = cnl::_impl::parse<T>(tokens[i]); });
        if (o.kind == CNL_ABORT) printf("R %d %d %s %.60s\n", kid, i, kind_name(o.kind), o.msg);
        else printf("R %d %d %s %s\n", kid, i, kind_name(o.kind), o.kind == VALUE ? storage_hex(v).c_str() : "-");
    }
    fflush(stdout);
    g.cur_kernel = "";
}

// ---- facts of a literal / factory result
template<class T> struct facts;
template<class T>
std::string deep_dec(T const& v)
{
    // decimal value of the innermost rep; multi-limb storage is printed as hex with a 0x prefix
    if constexpr (cnl::_impl::is_wrapper<T>) return deep_dec(cnl::_impl::to_rep(v));
    else if constexpr (cnl::_impl::is_uintwide_v<T>) {
        std::string s = "0x";
        auto const& r = v.crepresentation();
        char b[40];
        for (size_t i = r.size(); i-- > 0;) { snprintf(b, sizeof b, "%0*llx", (int)sizeof(r[0]) * 2, (unsigned long long)r[i]); s += b; }
        return s + (cnl::numbers::signedness_v<T> ? "s" : "u");
    } else return X::of(v).str();
}
template<class T> struct scaled_facts { static constexpr int exp = 0, radix = 2; static constexpr bool scaled = false; };
template<class R, int E, int Rx> struct scaled_facts<cnl::scaled_integer<R, cnl::power<E, Rx>>> { static constexpr int exp = E, radix = Rx; static constexpr bool scaled = true; };

template<class T>
void report(int idx, char const* kind, T const& v)
{
    using V = std::remove_cvref_t<T>;
    printf("L %d %s digits=%d exp=%d radix=%d signed=%d lo=%s hi=%s value=%s\n", idx, kind, (int)cnl::digits_v<V>, scaled_facts<V>::exp, scaled_facts<V>::radix, (int)cnl::numbers::signedness_v<V>,
           deep_dec(std::numeric_limits<V>::lowest()).c_str(), deep_dec(std::numeric_limits<V>::max()).c_str(), deep_dec(v).c_str());
}
template<auto Value>
void report(int idx, char const* kind, cnl::constant<Value> const&)
{
    printf("L %d %s digits=%d exp=0 radix=2 signed=1 lo=- hi=- value=%s\n", idx, kind, (int)sizeof(Value) * 8 - 1, X::of(Value).str().c_str());
}
}  // namespace c15
