// self-validation of the exact oracle (rt/x256.h): random operations are printed and re-computed by python big integers
#pragma once
#include "rt/rt.h"
#include "rt/x256.h"

inline void xself_run(long n)
{
    using namespace vf;
    Rng rng(env_seed() * 7919 + 17);
    auto rnd = [&](int maxbits) {
        X x;
        int bits = (int)rng.below((uint64_t)maxbits + 1);
        for (int w = 0; w < 4; ++w) x.m[w] = rng.next();
        x = bits ? shr_mag(x, 256 - bits) : X();
        if (rng.next() & 1) x = -x;
        return x;
    };
    for (long i = 0; i < n; ++i) {
        X a = rnd(125), b = rnd(125);
        unsigned s = (unsigned)rng.below(120);
        printf("S add %s %s %s\n", a.str().c_str(), b.str().c_str(), (a + b).str().c_str());
        printf("S sub %s %s %s\n", a.str().c_str(), b.str().c_str(), (a - b).str().c_str());
        printf("S mul %s %s %s\n", a.str().c_str(), b.str().c_str(), (a * b).str().c_str());
        printf("S cmp %s %s %d\n", a.str().c_str(), b.str().c_str(), cmp(a, b));
        printf("S shl %s %u %s\n", a.str().c_str(), s, shl(a, s).str().c_str());
        printf("S shrmag %s %u %s\n", a.str().c_str(), s, shr_mag(a, s).str().c_str());
        if (!b.zero()) {
            printf("S tdiv %s %s %s\n", a.str().c_str(), b.str().c_str(), tdiv(a, b).str().c_str());
            printf("S trem %s %s %s\n", a.str().c_str(), b.str().c_str(), trem(a, b).str().c_str());
            printf("S fdiv %s %s %s\n", a.str().c_str(), b.str().c_str(), fdiv(a, b).str().c_str());
            X big = a * rnd(120);  // up to 245-bit dividends exercise the general divmod path
            printf("S tdiv %s %s %s\n", big.str().c_str(), b.str().c_str(), tdiv(big, b).str().c_str());
        }
    }
}
