// E-text (C13, C14): to_chars / to_chars_static / to_string / operator<< inside a guarded arena; every call is logged
// and judged offline (python): bounds, result codes, and the exact meaning of the produced text.
//   V <kid> <vidx> <value-as-decimal-integer (rep for scaled types)>
//   P <kid> <vidx> <base> <len> <KIND> <ec> <off> <canary> <tail_touched> <text>
//   S <kid> <vidx> <form:static|string|stream|staticB<base>> <KIND> <text>
#pragma once
#include "harness/c01.h"

#include <cnl/all.h>
#include <cmath>
#include <sstream>

#if defined(__SANITIZE_ADDRESS__)
#define VF_ASAN 1
#elif defined(__has_feature)
#if __has_feature(address_sanitizer)
#define VF_ASAN 1
#endif
#endif
#if defined(VF_ASAN)
#include <sanitizer/asan_interface.h>
extern "C" void __asan_on_error()
{
    char b[800];
    int n = snprintf(b, sizeof b, "\n{\"t\":\"asan\",\"kernel\":\"%s\",\"input\":\"%s\"}\n", vf::g.cur_kernel, vf::g.cur_input);
    (void)!write(1, b, n);
}
#endif

namespace c13 {
using namespace vf;
using c01::deep;
using c01::RT;

struct Arena {
    static constexpr int PRE = 128, SIZE = 1024;
    char* block;
    Arena() { block = (char*)aligned_alloc(64, SIZE); }
    ~Arena() { unpoison(); free(block); }
    char* first() const { return block + PRE; }
    void unpoison()
    {
#if defined(VF_ASAN)
        __asan_unpoison_memory_region(block, SIZE);
#endif
    }
    void arm(int len)
    {
        unpoison();
        memset(block, '#', SIZE);
#if defined(VF_ASAN)
        __asan_poison_memory_region(block, PRE);
        __asan_poison_memory_region(block + PRE + len, SIZE - PRE - len);
#endif
    }
    // after the call: were the guard zones left alone?
    bool canary_ok(int len)
    {
        unpoison();
        for (int i = 0; i < PRE; ++i)
            if (block[i] != '#') return false;
        for (int i = PRE + len; i < SIZE; ++i)
            if (block[i] != '#') return false;
        return true;
    }
};

inline void print_text(char const* p, long n)
{
    for (long i = 0; i < n; ++i) {
        unsigned char c = (unsigned char)p[i];
        if (c > 32 && c < 127) putchar(c);
        else printf("\\x%02x", c);
    }
}

// one to_chars call in the arena
template<class T, class F>
void call(Arena& ar, int kid, int vidx, int base, int len, F&& f, long tick_budget)
{
    ar.arm(len);
    char* first = ar.first();
    char* last = first + len;
    std::to_chars_result r{nullptr, std::errc{}};
    g.tick_budget = tick_budget;
    snprintf(g.cur_input, sizeof g.cur_input, "vidx=%d base=%d len=%d", vidx, base, len);
    arm_timer(200);
    Outcome o = guarded([&] { r = f(first, last); });
    arm_timer(0);
    g.tick_budget = 0;
    bool canary = ar.canary_ok(len);
    long off = (o.kind == VALUE) ? (r.ptr ? (long)(r.ptr - first) : -999) : -1;
    int tail = 0;
    if (o.kind == VALUE && r.ec == std::errc{} && off >= 0 && off <= len)
        for (long i = off; i < len; ++i)
            if (first[i] != '#') tail = 1;
    printf("P %d %d %d %d %s %d %ld %d %d ", kid, vidx, base, len, kind_name(o.kind), (int)r.ec, off, (int)canary, tail);
    if (o.kind == VALUE && r.ec == std::errc{} && off > 0 && off <= len) print_text(first, off);
    else if (o.kind == CNL_ABORT) { char const* m = strstr(o.msg, "include/cnl/"); print_text(m ? m : o.msg, (long)strlen(m ? m : o.msg) > 90 ? 90 : (long)strlen(m ? m : o.msg)); }
    else putchar('-');
    putchar('\n');
}

// ---- integers (built-in, 128-bit, CNL wrappers holding a value that fits X)
template<class T>
void ints(char const* desc, int kid, int maxlen)
{
    if (!kernel_selected(desc)) return;
    g.cur_kernel = desc;
    Rng rng(mix(env_seed(), hash_str(desc)));
    using B = c01::base_of_t<T>;
    constexpr bool wide = !(c01::is_builtin<B>);
    printf("{\"t\":\"kd\",\"id\":%d,\"k\":\"%s\",\"kind\":\"int\",\"signed\":%d}\n", kid, desc, (int)cnl::numbers::signedness_v<T>);
    std::vector<X> vals;
    std::vector<T> tv;
    std::vector<std::string> wdesc;
    if constexpr (!wide) {
        size_t nd;
        vals = RT<T>::values(rng, nd, env_long("VERIF_NRAND", 6), 8);
        // thin the lattice for wide types but keep the extremes
        if (vals.size() > 60 && width_of<B> > 8) {
            std::vector<X> keep;
            for (size_t i = 0; i < vals.size(); ++i)
                if (i < 3 || i + 3 >= vals.size() || vals[i].mag128() <= 100 || (i + env_seed()) % 7 == 0) keep.push_back(vals[i]);
            vals = keep;
        }
        for (auto const& v : vals) tv.push_back(deep<T>(v));
    } else {
        // wide_integer: values built from shifts so that the harness knows them exactly; described symbolically
        // (E<k>:<d>:<neg> = +-(2^k + d)) because they can exceed the 256 bits of X
        int const D = (int)std::numeric_limits<T>::digits;
        for (int k : {0, 1, 7, 63, 64, 65, 100, 127, 128, 129, 150, 190, 255, 256, 300, 511, D - 2, D - 1}) {
            if (k >= D || k < 0) continue;
            for (int d : {-1, 0, 1}) {
                if (k == 0 && d < 0 && !cnl::numbers::signedness_v<T>) continue;
                T t = (T{1} << k) + T{d};
                wdesc.push_back("E" + std::to_string(k) + ":" + std::to_string(d) + ":0"); tv.push_back(t); vals.push_back(k < 250 ? xpow2((unsigned)k) + X::from_i(d) : xpow2(250));
                if (cnl::numbers::signedness_v<T>) { wdesc.push_back("E" + std::to_string(k) + ":" + std::to_string(d) + ":1"); tv.push_back(-t); vals.push_back(k < 250 ? -(xpow2((unsigned)k) + X::from_i(d)) : -xpow2(250)); }
            }
        }
        wdesc.push_back("E0:-1:0"); tv.push_back(T{0}); vals.push_back(X());
        // the limits of the type: max() = 2^D - 1, lowest() = -2^D (signed)
        wdesc.push_back("E" + std::to_string(D) + ":-1:0"); tv.push_back(std::numeric_limits<T>::max()); vals.push_back(xpow2(250));
        if (cnl::numbers::signedness_v<T>) { wdesc.push_back("E" + std::to_string(D) + ":0:1"); tv.push_back(std::numeric_limits<T>::lowest()); vals.push_back(-xpow2(250)); }
    }
    Arena ar;
    for (size_t i = 0; i < vals.size(); ++i) {
        printf("V %d %zu %s\n", kid, i, wide ? wdesc[i].c_str() : vals[i].str().c_str());
        for (int base : {10, 2, 3, 8, 16, 36}) {
            // every length 0..needed+2 (needed estimated from the magnitude), then a coarse sweep
            int need = 2;
            if (wide) need = 3 + (int)((double)std::numeric_limits<T>::digits * 0.6931471805599453 / std::log((double)base));
            else
            for (X m = vals[i].neg ? -vals[i] : vals[i]; !m.zero(); m = tdiv(m, X::from_u((unsigned)base))) ++need;
            for (int len = 0; len <= need + 2 && len <= maxlen; ++len) {
                T const& v = tv[i];
                call<T>(ar, kid, (int)i, base, len, [&](char* f, char* l) { return cnl::to_chars(f, l, v, base); }, 0);
            }
        }
        // fixed-capacity variants
        {
            std::string s1, s3;
            Outcome o = guarded([&] { auto r = cnl::to_chars_static(tv[i]); s1.assign(r.chars.data(), (size_t)r.length); });
            printf("S %d %zu static %s ", kid, i, kind_name(o.kind)); print_text(s1.data(), (long)s1.size()); if (s1.empty()) putchar('-'); putchar('\n');
            if constexpr (!std::is_integral_v<T>) {  // (for built-in types operator<< is the standard library's; char types print a character)
                Outcome o3 = guarded([&] { std::ostringstream os; using namespace cnl; os << tv[i]; s3 = os.str(); });
                printf("S %d %zu stream %s ", kid, i, kind_name(o3.kind)); print_text(s3.data(), (long)s3.size()); if (s3.empty()) putchar('-'); putchar('\n');
            }
            if constexpr (is_int128<T>) {
                // a sticky std::oct / std::hex must not truncate the text (it may be honoured or ignored)
                std::string so, sh;
                Outcome oo = guarded([&] { std::ostringstream os; using namespace cnl; os << std::oct << tv[i]; so = os.str(); });
                printf("S %d %zu stream_oct %s ", kid, i, kind_name(oo.kind)); print_text(so.data(), (long)so.size()); if (so.empty()) putchar('-'); putchar('\n');
                Outcome oh = guarded([&] { std::ostringstream os; using namespace cnl; os << std::hex << tv[i]; sh = os.str(); });
                printf("S %d %zu stream_hex %s ", kid, i, kind_name(oh.kind)); print_text(sh.data(), (long)sh.size()); if (sh.empty()) putchar('-'); putchar('\n');
            }
            if constexpr (c01::is_builtin<T>) {
                std::string s;
                auto sb = [&](auto basec, char const* nm) {
                    s.clear();
                    Outcome ob = guarded([&] { auto r = cnl::to_chars_static<decltype(basec)::value>(tv[i]); s.assign(r.chars.data(), (size_t)r.length); });
                    printf("S %d %zu %s %s ", kid, i, nm, kind_name(ob.kind)); print_text(s.data(), (long)s.size()); if (s.empty()) putchar('-'); putchar('\n');
                };
                sb(std::integral_constant<int, 2>{}, "staticB2");
                sb(std::integral_constant<int, 8>{}, "staticB8");
                sb(std::integral_constant<int, 16>{}, "staticB16");
                sb(std::integral_constant<int, 36>{}, "staticB36");
            }
        }
    }
    fflush(stdout);
    g.cur_kernel = "";
}

// ---- capacities of the fixed-capacity variants for every digit count:  Q <kid> <digits> <signed> <wide> <base> <capacity>
template<class T>
void capacity_of(int kid, int wide)
{
    for (int base : {2, 3, 8, 10, 16, 36})
        printf("Q %d %d %d %d %d %d\n", kid, (int)std::numeric_limits<T>::digits, (int)cnl::numbers::signedness_v<T>, wide, base, (int)cnl::_impl::to_chars_capacity<T>{}(base));
}
template<int... D>
void capacity_elastic(char const* desc, int kid, std::integer_sequence<int, D...>)
{
    if (!kernel_selected(desc)) return;
    printf("{\"t\":\"kd\",\"id\":%d,\"k\":\"%s\",\"kind\":\"capacity\"}\n", kid, desc);
    (capacity_of<cnl::elastic_integer<D + 1, int>>(kid, 0), ...);
    (capacity_of<cnl::elastic_integer<D + 1, unsigned>>(kid, 0), ...);
    fflush(stdout);
}
template<int Base, int... D>
void capacity_wide(char const* desc, int kid, std::integer_sequence<int, D...>)
{
    if (!kernel_selected(desc)) return;
    printf("{\"t\":\"kd\",\"id\":%d,\"k\":\"%s\",\"kind\":\"capacity\"}\n", kid, desc);
    (capacity_of<cnl::wide_integer<Base + D, int>>(kid, 1), ...);
    fflush(stdout);
}

// ---- scaled_integer
template<class Rep, int E, int R>
void scaled(char const* desc, int kid, int maxlen)
{
    if (!kernel_selected(desc)) return;
    using T = cnl::scaled_integer<Rep, cnl::power<E, R>>;
    g.cur_kernel = desc;
    Rng rng(mix(env_seed(), hash_str(desc)));
    int cap = (int)cnl::_impl::to_chars_capacity<T>{}();
    printf("{\"t\":\"kd\",\"id\":%d,\"k\":\"%s\",\"kind\":\"scaled\",\"exp\":%d,\"radix\":%d,\"digits\":%d,\"capacity\":%d}\n", kid, desc, E, R, (int)cnl::digits_v<Rep>, cap);
    std::vector<X> vals;
    size_t nd;
    long exh = env_long("VERIF_TEXT_EXH", 8);
    vals = RT<Rep>::values(rng, nd, env_long("VERIF_NRAND", 20), (int)exh);
    if (vals.size() > 120 && width_of<Rep> > exh) {
        std::vector<X> keep;
        for (size_t i = 0; i < vals.size(); ++i)
            if (i < 4 || i + 4 >= vals.size() || vals[i].mag128() <= 12 || (i + env_seed()) % 5 == 0) keep.push_back(vals[i]);
        vals = keep;
    }
    for (long t : {5L, 7L, 9L, 10L, 11L, 99L, 100L, 101L, 125L, 127L, 255L, 999L, 1000L, 1024L, 12345L, 65535L, 99999L, 100000L, 1000000L}) {
        if (X::from_i(t) <= RT<Rep>::hi()) vals.push_back(X::from_i(t));
        if (X::from_i(-t) >= RT<Rep>::lo()) vals.push_back(X::from_i(-t));
    }
    for (X d : {X::from_u(3), X::from_u(5), X::from_u(10)}) { vals.push_back(tdiv(RT<Rep>::hi(), d)); vals.push_back(tdiv(RT<Rep>::hi(), d) + X::from_u(1)); if (is_sgn<Rep>) vals.push_back(tdiv(RT<Rep>::lo(), d)); }
    Arena ar;
    int lenlimit = std::min(maxlen, cap + 2);
    bool all_lens = width_of<Rep> > exh || true;
    for (size_t i = 0; i < vals.size(); ++i) {
        printf("V %d %zu %s\n", kid, i, vals[i].str().c_str());
        T v = deep<T>(vals[i]);
        // small reps enumerate every value: use a thinner length set there unless asked otherwise
        for (int len = 0; len <= lenlimit; ++len) {
            if (!all_lens && len > 8 && (len + (int)i) % 3) continue;
            call<T>(ar, kid, (int)i, 10, len, [&](char* f, char* l) { return cnl::to_chars(f, l, v); }, 100000);
        }
        std::string s1, s2, s3;
        g.tick_budget = 100000;
        arm_timer(200);
        Outcome o1 = guarded([&] { auto r = cnl::to_chars_static(v); s1.assign(r.chars.data(), (size_t)r.length); });
        arm_timer(200);
        Outcome o2 = guarded([&] { s2 = cnl::to_string(v); });
        arm_timer(200);
        Outcome o3 = guarded([&] { std::ostringstream os; os << v; s3 = os.str(); });
        arm_timer(0);
        g.tick_budget = 0;
        printf("S %d %zu static %s ", kid, i, kind_name(o1.kind)); print_text(s1.data(), (long)s1.size()); if (s1.empty()) putchar('-'); putchar('\n');
        printf("S %d %zu string %s ", kid, i, kind_name(o2.kind)); print_text(s2.data(), (long)s2.size()); if (s2.empty()) putchar('-'); putchar('\n');
        printf("S %d %zu stream %s ", kid, i, kind_name(o3.kind)); print_text(s3.data(), (long)s3.size()); if (s3.empty()) putchar('-'); putchar('\n');
    }
    fflush(stdout);
    g.cur_kernel = "";
}
}  // namespace c13
