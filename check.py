#!/usr/bin/env python3
"""Entry point:  check.py <Cxx> --tier quick|thorough [--replay file]   |   check.py --setup"""
import argparse
import importlib
import json
import os
import shutil
import subprocess
import sys

sys.path.insert(0, os.path.dirname(os.path.abspath(__file__)))
from vf import core  # noqa: E402


def setup():
    ok = True
    for tool in ("g++", "clang++-14", "addr2line", "python3"):
        if not shutil.which(tool):
            print("missing tool: " + tool)
            ok = False
    os.makedirs(core.CACHE, exist_ok=True)
    os.makedirs(os.path.join(core.VERIF, "evidence"), exist_ok=True)
    os.makedirs(os.path.join(core.VERIF, "replays"), exist_ok=True)
    if ok:
        ok = selftest()
    print("setup ok" if ok else "setup FAILED")
    return 0 if ok else 2


def selftest():
    """oracle self-validation: rt/x256.h against python big integers"""
    src = '#include "harness/xself.h"\nint main() { xself_run(3000); vf::finish(); }\n'
    j = core.Job("xself", src, "g-ub", env={"VERIF_SEED": os.environ.get("VERIF_SEED", "1")})
    j.keep_raw = True
    core.build_and_run([j], "selftest")
    bad = n = 0
    for line in j.raw:
        p = line.split()
        if p[0] != "S":
            continue
        n += 1
        op, a, b, r = p[1], int(p[2]), int(p[3]), int(p[4])
        def tdiv(x, y):
            q = abs(x) // abs(y)
            return q if (x < 0) == (y < 0) else -q
        want = {"add": lambda: a + b, "sub": lambda: a - b, "mul": lambda: a * b, "cmp": lambda: (a > b) - (a < b), "shl": lambda: a << b,
                "shrmag": lambda: (abs(a) >> b) * (1 if a >= 0 else -1), "tdiv": lambda: tdiv(a, b), "trem": lambda: a - tdiv(a, b) * b, "fdiv": lambda: a // b}[op]()
        if want != r:
            bad += 1
            if bad < 5:
                print("ORACLE SELF-VALIDATION FAILED: %s" % line)
    print("oracle self-validation: %d operations re-computed with python integers, %d disagreements" % (n, bad))
    return bad == 0 and n > 1000


def main():
    ap = argparse.ArgumentParser()
    ap.add_argument("prop", nargs="?")
    ap.add_argument("--tier", default=None)
    ap.add_argument("--setup", action="store_true")
    ap.add_argument("--replay")
    a = ap.parse_args()
    if a.setup:
        return setup()
    tier = os.environ.get("VERIF_TIER") or a.tier or "quick"
    if tier not in ("quick", "thorough"):
        tier = "quick"
    try:
        seed = int(os.environ.get("VERIF_SEED", "1"))
    except ValueError:
        seed = 1
    prop = a.prop.upper()
    mod = importlib.import_module("vf.engines." + prop.lower())
    os.makedirs(core.CACHE, exist_ok=True)
    try:
        if a.replay:
            with open(a.replay) as f:
                rp = json.load(f)
            print("replaying %s kernel=%s class=%s (recorded witnesses: %s)" % (rp["property"], rp["kernel"], rp["class"], json.dumps(rp["witnesses"][:2])))
            os.environ["VERIF_KERNEL"] = rp["kernel"]
            return mod.run(rp.get("tier", tier), rp.get("seed", seed), only=rp)
        return mod.run(tier, seed)
    except core.Inconclusive as e:
        print("INCONCLUSIVE property=%s: %s" % (prop, e))
        return 2
    except Exception:  # a fault of the machinery itself is never a verdict
        import traceback
        traceback.print_exc()
        print("INCONCLUSIVE property=%s: internal error of the checking machinery (see stderr)" % prop)
        return 2


if __name__ == "__main__":
    sys.exit(main())
