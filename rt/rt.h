// Shared run-time for all /verif harnesses: guarded case executor, outcome events,
// PRNG, input lattices, JSON-lines emitter, tallies.  Header-only; C++20.
#pragma once
#include <cnl/_impl/abort.h>  // verif hooks (H1 abort_hook, H3 tick_hook)

#include <algorithm>
#include <csetjmp>
#include <csignal>
#include <cstdint>
#include <cstdio>
#include <cstdlib>
#include <cstring>
#include <map>
#include <stdexcept>
#include <string>
#include <sys/time.h>
#include <type_traits>
#include <unistd.h>
#include <ucontext.h>
#include <vector>

namespace vf {
typedef __int128 i128;
typedef unsigned __int128 u128;

// ---------------------------------------------------------------- outcomes
enum Kind { VALUE = 0, THROW_POS, THROW_NEG, THROW_OTHER, CNL_ABORT, UB_TRAP, SIG, HANG, NKIND };
inline char const* kind_name(int k)
{
    static char const* n[] = {"VALUE", "THROW+", "THROW-", "THROW?", "CNL_ABORT", "UB_TRAP", "SIGNAL", "HANG"};
    return n[k];
}
struct Outcome {
    int kind = VALUE;
    int sig = 0;
    unsigned long pc = 0;
    char msg[200] = {0};
};

struct State {
    sigjmp_buf env;
    volatile int in_case = 0;
    volatile int sig = 0;
    volatile unsigned long pc = 0;
    char msg[200];
    volatile long ticks = 0;
    long tick_budget = 0;
    char const* cur_kernel = "";
    char cur_input[400];
};
inline State g;

inline void fatal_outside(char const* what, int sig, unsigned long pc)
{
    // a fault while no case is in flight is a fault of the harness/oracle: never an outcome
    char b[700];
    int n = snprintf(b, sizeof b, "\n{\"t\":\"harness_fault\",\"what\":\"%s\",\"sig\":%d,\"pc\":\"0x%lx\",\"kernel\":\"%s\",\"input\":\"%s\"}\n", what, sig, pc, g.cur_kernel, g.cur_input);
    (void)!write(1, b, n);
    (void)!write(2, b, n);
    _exit(2);
}
inline void on_signal(int s, siginfo_t*, void* uc)
{
    unsigned long pc = 0;
#if defined(__x86_64__)
    pc = (unsigned long)((ucontext_t*)uc)->uc_mcontext.gregs[REG_RIP];
#endif
    if (!g.in_case) fatal_outside("signal outside case", s, pc);
    g.in_case = 0;
    g.sig = s;
    g.pc = pc;
    siglongjmp(g.env, 1);
}
inline void on_abort_hook(char const* m)
{
    if (!g.in_case) fatal_outside(m, 0, 0);
    g.in_case = 0;
    g.sig = -1;
    g.pc = 0;
    strncpy(g.msg, m, sizeof g.msg - 1);
    g.msg[sizeof g.msg - 1] = 0;
    siglongjmp(g.env, 1);
}
inline void on_tick()
{
    g.ticks = g.ticks + 1;
    if (g.tick_budget && g.ticks > g.tick_budget && g.in_case) {
        g.in_case = 0;
        g.sig = -2;
        g.pc = 0;
        siglongjmp(g.env, 1);
    }
}
inline void install()
{
    static bool done = false;
    if (done) return;
    done = true;
    static char altstack[1 << 16];
    stack_t ss{};
    ss.ss_sp = altstack;
    ss.ss_size = sizeof altstack;
    sigaltstack(&ss, nullptr);
    struct sigaction sa {};
    sa.sa_sigaction = on_signal;
    sa.sa_flags = SA_SIGINFO | SA_NODEFER | SA_ONSTACK;
    for (int s : {SIGILL, SIGFPE, SIGSEGV, SIGBUS, SIGABRT, SIGTRAP, SIGVTALRM}) sigaction(s, &sa, nullptr);
    cnl::_impl::verif::abort_hook = on_abort_hook;
    cnl::_impl::verif::tick_hook = on_tick;
    setvbuf(stdout, nullptr, _IOFBF, 1 << 16);
}

// Run f() as one monitored case.  The frame holds no workload state.
template<class F>
__attribute__((noinline)) Outcome guarded(F&& f)
{
    Outcome o;
    g.ticks = 0;
    if (sigsetjmp(g.env, 0) == 0) {
        g.in_case = 1;
        try {
            f();
            g.in_case = 0;
            o.kind = VALUE;
        } catch (std::overflow_error const& e) {
            g.in_case = 0;
            strncpy(o.msg, e.what(), sizeof o.msg - 1);
            o.kind = strstr(o.msg, "positive") ? THROW_POS : strstr(o.msg, "negative") ? THROW_NEG : THROW_OTHER;
        } catch (std::exception const& e) {
            g.in_case = 0;
            strncpy(o.msg, e.what(), sizeof o.msg - 1);
            o.kind = THROW_OTHER;
        }
    } else {
        o.sig = g.sig;
        o.pc = g.pc;
        if (g.sig == -1) {
            o.kind = CNL_ABORT;
            memcpy(o.msg, g.msg, sizeof o.msg);
        } else if (g.sig == -2 || g.sig == SIGVTALRM) {
            o.kind = HANG;
        } else if (g.sig == SIGILL || g.sig == SIGTRAP) {
            o.kind = UB_TRAP;
        } else {
            o.kind = SIG;
        }
    }
    return o;
}
// cpu-time budget for one case (ms); 0 disarms
inline void arm_timer(int ms)
{
    itimerval it{};
    it.it_value.tv_sec = ms / 1000;
    it.it_value.tv_usec = (ms % 1000) * 1000;
    setitimer(ITIMER_VIRTUAL, &it, nullptr);
}

// ---------------------------------------------------------------- PRNG
struct Rng {
    uint64_t s;
    explicit Rng(uint64_t seed) : s(seed) {}
    uint64_t next()
    {
        uint64_t z = (s += 0x9e3779b97f4a7c15ull);
        z = (z ^ (z >> 30)) * 0xbf58476d1ce4e5b9ull;
        z = (z ^ (z >> 27)) * 0x94d049bb133111ebull;
        return z ^ (z >> 31);
    }
    uint64_t below(uint64_t n) { return n ? next() % n : 0; }
    u128 next128() { return ((u128)next() << 64) | next(); }
};
inline uint64_t mix(uint64_t a, uint64_t b)
{
    Rng r(a * 0x9e3779b97f4a7c15ull + b);
    r.next();
    return r.next();
}
inline uint64_t hash_str(char const* s)
{
    uint64_t h = 1469598103934665603ull;
    for (; *s; ++s) h = (h ^ (unsigned char)*s) * 1099511628211ull;
    return h;
}
inline uint64_t env_seed()
{
    char const* e = getenv("VERIF_SEED");
    return e ? strtoull(e, nullptr, 10) : 1;
}
inline long env_long(char const* name, long dflt)
{
    char const* e = getenv(name);
    return e ? strtol(e, nullptr, 10) : dflt;
}

// ---------------------------------------------------------------- printing
inline std::string str(i128 v)
{
    if (v == 0) return "0";
    bool neg = v < 0;
    u128 u = neg ? (u128)0 - (u128)v : (u128)v;
    char b[48];
    int i = 47;
    b[i] = 0;
    while (u) {
        b[--i] = char('0' + (int)(u % 10));
        u /= 10;
    }
    if (neg) b[--i] = '-';
    return b + i;
}
inline std::string ustr(u128 u)
{
    if (u == 0) return "0";
    char b[48];
    int i = 47;
    b[i] = 0;
    while (u) {
        b[--i] = char('0' + (int)(u % 10));
        u /= 10;
    }
    return b + i;
}
template<class T>
std::string istr(T v)
{
    if constexpr (std::is_same_v<T, bool>) return v ? "1" : "0";
    else if constexpr (std::is_signed_v<T> || std::is_same_v<T, i128>) return str((i128)v);
    else return ustr((u128)v);
}
inline std::string fstr(long double v)
{
    char b[64];
    snprintf(b, sizeof b, "%La", v);
    return b;
}
inline std::string jesc(std::string const& s)
{
    std::string o;
    for (char c : s) {
        if (c == '"' || c == '\\') {
            o += '\\';
            o += c;
        } else if ((unsigned char)c < 32) {
            char b[8];
            snprintf(b, sizeof b, "\\u%04x", c);
            o += b;
        } else
            o += c;
    }
    return o;
}
inline std::string outcome_str(Outcome const& o, std::string const& value = "")
{
    std::string s = kind_name(o.kind);
    if (o.kind == VALUE) return s + "(" + value + ")";
    if (o.kind == CNL_ABORT || o.kind == THROW_OTHER) return s + "(" + o.msg + ")";
    if (o.kind == UB_TRAP || o.kind == SIG) {
        char b[64];
        snprintf(b, sizeof b, "(sig=%d,pc=0x%lx)", o.sig, o.pc);
        return s + b;
    }
    return s;
}

// ---------------------------------------------------------------- integer facts and lattices
template<class T> constexpr bool is_int128 = std::is_same_v<T, i128> || std::is_same_v<T, u128>;
template<class T> constexpr bool is_sgn = std::is_signed_v<T> || std::is_same_v<T, i128>;
template<class T> constexpr int width_of = sizeof(T) * 8;
template<class T> constexpr T tmax()
{
    if constexpr (is_sgn<T>) return (T)(((u128)1 << (width_of<T> - 1)) - 1);
    else return (T) ~(T)0;
}
template<class T> constexpr T tmin()
{
    if constexpr (is_sgn<T>) return (T)(-(i128)tmax<T>() - 1);
    else return (T)0;
}
template<class T> char const* tname()
{
    if constexpr (std::is_same_v<T, signed char>) return "i8";
    else if constexpr (std::is_same_v<T, unsigned char>) return "u8";
    else if constexpr (std::is_same_v<T, short>) return "i16";
    else if constexpr (std::is_same_v<T, unsigned short>) return "u16";
    else if constexpr (std::is_same_v<T, int>) return "i32";
    else if constexpr (std::is_same_v<T, unsigned>) return "u32";
    else if constexpr (std::is_same_v<T, long>) return "i64";
    else if constexpr (std::is_same_v<T, unsigned long>) return "u64";
    else if constexpr (std::is_same_v<T, long long>) return "ll";
    else if constexpr (std::is_same_v<T, unsigned long long>) return "ull";
    else if constexpr (std::is_same_v<T, i128>) return "i128";
    else if constexpr (std::is_same_v<T, u128>) return "u128";
    else if constexpr (std::is_same_v<T, float>) return "f32";
    else if constexpr (std::is_same_v<T, double>) return "f64";
    else if constexpr (std::is_same_v<T, long double>) return "f80";
    else if constexpr (std::is_same_v<T, bool>) return "bool";
    else if constexpr (std::is_same_v<T, char>) return "char";
    else return "?";
}

// Boundary lattice B(T): a sorted, de-duplicated set (so lattice cases are distinct by construction).
template<class T>
std::vector<T> lattice()
{
    constexpr int w = width_of<T>;
    std::vector<T> v;
    auto add = [&](i128 x, bool neg_ok = true) {
        // x given as mathematical value when it fits i128; filtered to the range of T
        if constexpr (std::is_same_v<T, u128>) {
            if (x >= 0) v.push_back((T)x);
        } else {
            if (x >= (i128)tmin<T>() && x <= (i128)tmax<T>()) v.push_back((T)x);
        }
        (void)neg_ok;
    };
    for (int d = 0; d <= 3; ++d) {
        add(d);
        add(-d);
        v.push_back((T)(tmax<T>() - (T)d));
        v.push_back((T)(tmin<T>() + (T)d));
    }
    for (int k = 1; k < w && k < 127; ++k)
        for (int d = -1; d <= 1; ++d) {
            i128 t = ((i128)1 << k) + d;
            add(t);
            add(-t);
        }
    if constexpr (std::is_same_v<T, u128>) {
        v.push_back((T)1 << 127);
        v.push_back(((T)1 << 127) + 1);
        v.push_back(((T)1 << 127) - 1);
    }
    // alternating patterns, bounds of narrower types, sqrt/3/10 fractions of max
    u128 p5 = 0, pa = 0;
    for (int i = 0; i < w; i += 2) p5 |= (u128)1 << i;
    pa = p5 << 1;
    v.push_back((T)p5);
    v.push_back((T)pa);
    for (int nw : {8, 16, 32, 64})
        if (nw < w) {
            i128 sm = ((i128)1 << (nw - 1)), um = ((i128)1 << nw);
            for (int d = -1; d <= 1; ++d) {
                add(sm - 1 + d);
                add(-sm + d);
                add(um - 1 + d);
            }
        }
    T mx = tmax<T>();
    v.push_back(mx / 3);
    v.push_back(mx / 10);
    v.push_back((T)(mx / 10 + 1));
    v.push_back((T)(mx / 10 - 1));
    {
        // floor(sqrt(max)) +-1
        u128 m = (u128)mx, r = 0;
        for (int b = w / 2; b >= 0; --b) {
            u128 c = r | ((u128)1 << b);
            if (c <= m / c) r = c;
        }
        v.push_back((T)r);
        v.push_back((T)(r + 1));
        v.push_back((T)(r - 1));
        if constexpr (is_sgn<T>) {
            v.push_back((T)(-(i128)r));
        }
    }
    std::sort(v.begin(), v.end());
    v.erase(std::unique(v.begin(), v.end()), v.end());
    return v;
}
template<class T>
std::vector<T> all_values()
{
    static_assert(width_of<T> <= 16);
    std::vector<T> v;
    for (long x = (long)tmin<T>(); x <= (long)tmax<T>(); ++x) v.push_back((T)x);
    return v;
}
// all values when the type has at most MaxExh bits, else the boundary lattice
template<class T, int MaxExh = 8>
std::vector<T> values_for()
{
    if constexpr (width_of<T> <= MaxExh) return all_values<T>();
    else return lattice<T>();
}
// log-uniform magnitude, random sign
template<class T>
T rand_val(Rng& r)
{
    constexpr int w = width_of<T>;
    u128 u = r.next128();
    int bits = (int)r.below(w + 1);
    if (bits == 0) u = 0;
    else if (bits < 128) u &= (((u128)1 << bits) - 1);
    if constexpr (is_sgn<T>) {
        u128 lim = (u128)tmax<T>();
        if (u > lim) u = (r.next() & 1) ? lim - (r.next() & 7) : u & lim;
        i128 s = (i128)u;
        if (r.next() & 1) s = -s;
        if ((r.next() & 63) == 0) s = (i128)tmin<T>() + (i128)(r.next() & 3);
        return (T)s;
    } else {
        if ((r.next() & 63) == 0) return (T)(tmax<T>() - (T)(r.next() & 3));
        return (T)u;
    }
}
template<class T>
bool is_boundary(T x)
{
    // within 3 of 0, of a type bound, or of +-2^k (k>=2)
    using U = std::make_unsigned_t<std::conditional_t<is_int128<T>, u128, T>>;
    U m;
    if constexpr (is_sgn<T>) m = x < 0 ? (U)0 - (U)x : (U)x;
    else m = (U)x;
    if (m <= 3) return true;
    if ((U)((U)tmax<T>() - (U)x) <= 3 || (U)((U)x - (U)tmin<T>()) <= 3) return true;
    for (int d = -1; d <= 1; ++d) {
        U t = (U)(m + (U)d);
        if (t && !(t & (t - 1))) return true;
    }
    return false;
}

// ---------------------------------------------------------------- tallies and emitter
struct Witness {
    std::string in, exp, obs;
    unsigned long pc = 0;
};
struct Tally {
    std::string kernel;   // descriptor
    long judged = 0, ood = 0, nontrivial = 0, notrun = 0;
    long kinds[NKIND] = {0};
    std::map<std::string, long> classes;           // informational class counts (boundary classes, etc)
    std::map<std::string, long> viol;              // violation class -> count
    std::map<std::string, std::vector<Witness>> vw;  // first few witnesses per class
    std::vector<Witness> samples;
    long traps = 0, hangs = 0;
    bool closed = false;
    bool exhaustive = false;

    explicit Tally(std::string k) : kernel(std::move(k)) { g.cur_kernel = kernel.c_str(); }
    void held(Outcome const& o, bool nontriv)
    {
        ++judged;
        ++kinds[o.kind];
        if (nontriv) ++nontrivial;
    }
    template<class FI, class FE, class FO>
    void sample(bool nontriv, FI&& in, FE&& exp, FO&& obs)
    {
        if (samples.size() < 3 && (nontriv || samples.empty()) && (judged % 37 == 5 || samples.empty()))
            samples.push_back({in(), exp(), obs(), 0});
    }
    void violation(std::string const& cls, Outcome const& o, std::string in, std::string exp, std::string obs, bool nontriv = true)
    {
        ++judged;
        ++kinds[o.kind];
        if (nontriv) ++nontrivial;
        long& c = viol[cls];
        if (c++ < 4) vw[cls].push_back({std::move(in), std::move(exp), std::move(obs), o.pc});
        if (o.kind == UB_TRAP || o.kind == SIG || o.kind == CNL_ABORT) {
            if (++traps >= env_long("VERIF_TRAP_RATION", 20000)) closed = true;
        }
        if (o.kind == HANG && ++hangs >= 5) closed = true;
    }
    void emit()
    {
        std::string s = "{\"t\":\"k\",\"k\":\"" + jesc(kernel) + "\"";
        char b[256];
        snprintf(b, sizeof b, ",\"judged\":%ld,\"ood\":%ld,\"nontrivial\":%ld,\"notrun\":%ld,\"closed\":%d,\"exhaustive\":%d,\"kinds\":{", judged, ood, nontrivial, notrun, (int)closed, (int)exhaustive);
        s += b;
        bool first = true;
        for (int i = 0; i < NKIND; ++i)
            if (kinds[i]) {
                snprintf(b, sizeof b, "%s\"%s\":%ld", first ? "" : ",", kind_name(i), kinds[i]);
                s += b;
                first = false;
            }
        s += "},\"classes\":{";
        first = true;
        for (auto& [k, v] : classes) {
            s += (first ? "\"" : ",\"") + jesc(k) + "\":" + std::to_string(v);
            first = false;
        }
        s += "},\"samples\":[";
        first = true;
        for (auto& w : samples) {
            s += std::string(first ? "" : ",") + "{\"in\":\"" + jesc(w.in) + "\",\"exp\":\"" + jesc(w.exp) + "\",\"obs\":\"" + jesc(w.obs) + "\"}";
            first = false;
        }
        s += "]}";
        puts(s.c_str());
        for (auto& [cls, n] : viol) {
            std::string v = "{\"t\":\"v\",\"k\":\"" + jesc(kernel) + "\",\"cls\":\"" + jesc(cls) + "\",\"n\":" + std::to_string(n) + ",\"w\":[";
            first = true;
            for (auto& w : vw[cls]) {
                snprintf(b, sizeof b, "\"pc\":\"0x%lx\"", w.pc);
                v += std::string(first ? "" : ",") + "{\"in\":\"" + jesc(w.in) + "\",\"exp\":\"" + jesc(w.exp) + "\",\"obs\":\"" + jesc(w.obs) + "\"," + b + "}";
                first = false;
            }
            v += "]}";
            puts(v.c_str());
        }
        fflush(stdout);
        g.cur_kernel = "";
    }
};

inline void set_input(std::string const& s)
{
    strncpy(g.cur_input, s.c_str(), sizeof g.cur_input - 1);
}

// kernel selection: VERIF_KERNEL=<substring> restricts a binary to matching kernels (replay)
inline bool kernel_selected(char const* desc)
{
    static char const* sel = getenv("VERIF_KERNEL");
    return !sel || !*sel || strcmp(sel, desc) == 0;
}
inline void finish()
{
    puts("{\"t\":\"done\"}");
    fflush(stdout);
}
}  // namespace vf
