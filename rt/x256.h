// X: exact signed integer, 256-bit two's complement on four 64-bit limbs (unsigned limb arithmetic only).
// Wide enough for every exact result of one operation on operands of up to 128 bits
// (sum: 130 bits, product: 256 bits incl. sign for 128x128 - magnitudes < 2^128 so |p| < 2^256/2 holds
// only if one operand is < 2^127; products are therefore computed on magnitudes with an explicit sign).
#pragma once
#include <cstdint>
#include <limits>
#include <string>
#include <type_traits>

namespace vf {
typedef __int128 i128;
typedef unsigned __int128 u128;

// set when an X operation lost bits (the oracle's own precision was exceeded): the case must then not be judged
inline bool x_overflowed = false;

struct X {
    // sign-magnitude: mag is 256-bit unsigned little-endian; neg only if mag != 0
    uint64_t m[4] = {0, 0, 0, 0};
    bool neg = false;

    X() = default;
    static X from_u(u128 u)
    {
        X x;
        x.m[0] = (uint64_t)u;
        x.m[1] = (uint64_t)(u >> 64);
        return x;
    }
    static X from_i(i128 v)
    {
        X x = from_u(v < 0 ? (u128)0 - (u128)v : (u128)v);
        x.neg = v < 0;
        return x;
    }
    template<class T>
    static X of(T v)
    {
        if constexpr (std::is_same_v<T, u128> || std::is_unsigned_v<T>) return from_u((u128)v);
        else return from_i((i128)v);
    }
    bool zero() const { return !(m[0] | m[1] | m[2] | m[3]); }
    static int cmp_mag(X const& a, X const& b)
    {
        for (int i = 3; i >= 0; --i)
            if (a.m[i] != b.m[i]) return a.m[i] < b.m[i] ? -1 : 1;
        return 0;
    }
    static X add_mag(X const& a, X const& b)
    {
        X r;
        unsigned c = 0;
        for (int i = 0; i < 4; ++i) {
            u128 s = (u128)a.m[i] + b.m[i] + c;
            r.m[i] = (uint64_t)s;
            c = (unsigned)(s >> 64);
        }
        if (c) x_overflowed = true;
        return r;
    }
    static X sub_mag(X const& a, X const& b)  // a >= b
    {
        X r;
        unsigned br = 0;
        for (int i = 0; i < 4; ++i) {
            u128 d = (u128)a.m[i] - b.m[i] - br;
            r.m[i] = (uint64_t)d;
            br = (unsigned)((d >> 64) & 1);
        }
        return r;
    }
    friend X operator+(X const& a, X const& b)
    {
        X r;
        if (a.neg == b.neg) {
            r = add_mag(a, b);
            r.neg = a.neg;
        } else {
            int c = cmp_mag(a, b);
            if (c == 0) return X();
            if (c > 0) {
                r = sub_mag(a, b);
                r.neg = a.neg;
            } else {
                r = sub_mag(b, a);
                r.neg = b.neg;
            }
        }
        if (r.zero()) r.neg = false;
        return r;
    }
    friend X operator-(X const& a)
    {
        X r = a;
        if (!r.zero()) r.neg = !r.neg;
        return r;
    }
    friend X operator-(X const& a, X const& b) { return a + (-b); }
    int bitlen() const
    {
        for (int i = 3; i >= 0; --i)
            if (m[i]) return i * 64 + 64 - __builtin_clzll(m[i]);
        return 0;
    }
    friend X operator*(X const& a, X const& b)
    {
        X r;
        if (a.bitlen() + b.bitlen() > 256) x_overflowed = true;
        for (int i = 0; i < 4; ++i) {
            uint64_t carry = 0;
            for (int j = 0; i + j < 4; ++j) {
                u128 t = (u128)a.m[i] * b.m[j] + r.m[i + j] + carry;
                r.m[i + j] = (uint64_t)t;
                carry = (uint64_t)(t >> 64);
            }
        }
        r.neg = !r.zero() && (a.neg != b.neg);
        return r;
    }
    // shift left by s (0 <= s); saturates to a huge magnitude (2^255) when bits would be lost
    friend X shl(X const& a, unsigned long s)
    {
        if (a.zero()) return X();
        X r;
        r.neg = a.neg;
        int top = 0;
        for (int i = 3; i >= 0; --i)
            if (a.m[i]) {
                top = i * 64 + 64 - __builtin_clzll(a.m[i]);
                break;
            }
        if (s >= 256 || top + s > 255) {
            x_overflowed = true;
            r.m[3] = 0x8000000000000000ull;
            return r;
        }
        unsigned w = (unsigned)(s / 64), b = (unsigned)(s % 64);
        for (int i = 3; i >= 0; --i) {
            uint64_t v = 0;
            if (i >= (int)w) {
                v = a.m[i - w] << b;
                if (b && i - (int)w - 1 >= 0) v |= a.m[i - w - 1] >> (64 - b);
            }
            r.m[i] = v;
        }
        return r;
    }
    // floor(|a| / 2^s) with sign kept (truncation toward zero of magnitude)
    friend X shr_mag(X const& a, unsigned s)
    {
        X r;
        if (s >= 256) return r;
        unsigned w = s / 64, b = s % 64;
        for (int i = 0; i < 4; ++i) {
            uint64_t v = 0;
            if (i + w < 4) {
                v = a.m[i + w] >> b;
                if (b && i + w + 1 < 4) v |= a.m[i + w + 1] << (64 - b);
            }
            r.m[i] = v;
        }
        r.neg = a.neg && !r.zero();
        return r;
    }
    bool low_bits_zero(unsigned s) const
    {
        for (unsigned i = 0; i < s && i < 256; ++i)
            if ((m[i / 64] >> (i % 64)) & 1) return false;
        return true;
    }
    friend int cmp(X const& a, X const& b)
    {
        if (a.neg != b.neg) return a.neg ? -1 : 1;
        int c = cmp_mag(a, b);
        return a.neg ? -c : c;
    }
    friend bool operator==(X const& a, X const& b) { return cmp(a, b) == 0; }
    friend bool operator!=(X const& a, X const& b) { return cmp(a, b) != 0; }
    friend bool operator<(X const& a, X const& b) { return cmp(a, b) < 0; }
    friend bool operator<=(X const& a, X const& b) { return cmp(a, b) <= 0; }
    friend bool operator>(X const& a, X const& b) { return cmp(a, b) > 0; }
    friend bool operator>=(X const& a, X const& b) { return cmp(a, b) >= 0; }
    bool fits_u128() const { return !neg && !m[2] && !m[3]; }
    u128 mag128() const { return ((u128)m[1] << 64) | m[0]; }
    bool mag_fits128() const { return !m[2] && !m[3]; }
    int sign() const { return zero() ? 0 : neg ? -1 : 1; }

    // general magnitude division (shift-subtract), quotient truncated toward zero; remainder has the sign of a
    static void divmod(X const& a, X const& b, X& q, X& r)
    {
        q = X();
        r = X();
        for (int i = 255; i >= 0; --i) {
            // r = r*2 + bit
            uint64_t c = (a.m[i / 64] >> (i % 64)) & 1;
            for (int k = 0; k < 4; ++k) {
                uint64_t n = r.m[k] >> 63;
                r.m[k] = (r.m[k] << 1) | c;
                c = n;
            }
            if (cmp_mag(r, b) >= 0) {
                X t = sub_mag(r, b);
                for (int k = 0; k < 4; ++k) r.m[k] = t.m[k];
                q.m[i / 64] |= (uint64_t)1 << (i % 64);
            }
        }
        q.neg = !q.zero() && (a.neg != b.neg);
        r.neg = !r.zero() && a.neg;
    }
    friend X tdiv(X const& a, X const& b)
    {
        X q, r;
        if (a.mag_fits128() && b.mag_fits128()) {
            q = from_u(a.mag128() / b.mag128());
            q.neg = !q.zero() && (a.neg != b.neg);
            return q;
        }
        divmod(a, b, q, r);
        return q;
    }
    friend X trem(X const& a, X const& b)
    {
        X q, r;
        divmod(a, b, q, r);
        return r;
    }
    friend X fdiv(X const& a, X const& b)  // floor division
    {
        X q, r;
        divmod(a, b, q, r);
        if (!r.zero() && (a.neg != b.neg)) q = q - from_u(1);
        return q;
    }
    std::string str() const
    {
        if (zero()) return "0";
        uint64_t t[4] = {m[0], m[1], m[2], m[3]};
        std::string s;
        auto nz = [&] { return t[0] | t[1] | t[2] | t[3]; };
        while (nz()) {
            uint64_t rem = 0;
            for (int i = 3; i >= 0; --i) {
                u128 cur = ((u128)rem << 64) | t[i];
                t[i] = (uint64_t)(cur / 10);
                rem = (uint64_t)(cur % 10);
            }
            s.insert(s.begin(), char('0' + rem));
        }
        if (neg) s.insert(s.begin(), '-');
        return s;
    }
};
template<class T> X xmax()
{
    if constexpr (std::is_same_v<T, u128>) return X::from_u(~(u128)0);
    else if constexpr (std::is_same_v<T, i128>) return X::from_u(~(u128)0 >> 1);
    else return X::of(std::numeric_limits<T>::max());
}
template<class T> X xmin()
{
    if constexpr (std::is_same_v<T, u128>) return X();
    else if constexpr (std::is_same_v<T, i128>) return -X::from_u((u128)1 << 127);
    else return X::of(std::numeric_limits<T>::lowest());
}
inline X xpow2(unsigned k) { return shl(X::from_u(1), k); }
}  // namespace vf
