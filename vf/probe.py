"""Probe which generated kernels instantiate on the pinned tree (-fsyntax-only), to freeze a universe under /verif/matrix/.
Usage: python3 -m vf.probe <engine-module> [tier-of-universe]  -> writes matrix/<name>.json"""
import concurrent.futures as cf
import json
import os
import re
import subprocess
import sys
import tempfile

from . import core


def syntax_ok(header, stmts, workdir, tag, cc="g++"):
    """returns (ok_list, bad_list) for one batch, by iterative removal of kernels named in diagnostics"""
    stmts = list(stmts)
    bad = []
    while stmts:
        src = os.path.join(workdir, "p%s.cpp" % tag)
        lines = ['#include "harness/%s"' % header, "void probe_fn() {"]
        first = len(lines) + 1
        for d, s in stmts:
            lines.append(s)
        lines.append("}")
        with open(src, "w") as f:
            f.write("\n".join(lines) + "\n")
        p = subprocess.run([cc] + core.COMMON + ["-DCNL_DEBUG", "-fsyntax-only", "-fmax-errors=0", "-w", src], capture_output=True, text=True)
        if p.returncode == 0:
            return stmts, bad
        culprit = set()
        for m in re.finditer(re.escape(src) + r":(\d+):\d+:", p.stderr):
            ln = int(m.group(1))
            if first <= ln < first + len(stmts):
                culprit.add(ln - first)
        if not culprit:
            if len(stmts) == 1:
                bad.append(stmts[0])
                return [], bad
            mid = len(stmts) // 2
            a_ok, a_bad = syntax_ok(header, stmts[:mid], workdir, tag + "a", cc)
            b_ok, b_bad = syntax_ok(header, stmts[mid:], workdir, tag + "b", cc)
            return a_ok + b_ok, bad + a_bad + b_bad
        for i in sorted(culprit, reverse=True):
            bad.append(stmts.pop(i))
    return stmts, bad


def probe(header, stmts, batch=12):
    work = tempfile.mkdtemp(prefix="probe", dir=core.CACHE)
    batches = [stmts[i:i + batch] for i in range(0, len(stmts), batch)]
    ok, bad = [], []
    with cf.ThreadPoolExecutor(core.NCPU) as ex:
        for o, b in ex.map(lambda ib: syntax_ok(header, ib[1], work, str(ib[0])), enumerate(batches)):
            ok += o
            bad += b
    subprocess.run(["rm", "-rf", work])
    return ok, bad
