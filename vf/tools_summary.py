#!/usr/bin/env python3
"""debug aid: summarise .cache/logs/<prop>-violations.json by (config, class, site)"""
import json, sys, collections, os
prop = sys.argv[1]
vs = json.load(open(os.path.join(os.path.dirname(os.path.abspath(__file__)), "..", ".cache", "logs", prop + "-violations.json")))
c = collections.OrderedDict()
for v in vs:
    if len(sys.argv) > 2 and sys.argv[2] not in json.dumps(v): continue
    k = (v["config"], v["cls"], v.get("site"), v.get("known"))
    e = c.setdefault(k, [0, 0, None])
    e[0] += 1; e[1] += v["count"]
    if e[2] is None: e[2] = (v["kernel"], v["witnesses"][0] if v["witnesses"] else None)
for k, e in c.items():
    w = e[2][1] or {}
    print("%-7s %-60s site=%s known=%s kernels=%d cases=%d  e.g. %s  in=%s exp=%s obs=%s" % (k[0], k[1], k[2], k[3], e[0], e[1], e[2][0], w.get("in"), w.get("exp"), w.get("obs")))
