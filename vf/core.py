"""Shared driver machinery: build cache keyed on the /repo tree, parallel runner,
JSON-lines collection, trap symbolisation, known-findings matching, replay files,
evidence writer.  Standard library only."""
import concurrent.futures as cf
import hashlib
import json
import os
import re
import subprocess
import sys
import time

VERIF = os.path.dirname(os.path.dirname(os.path.abspath(__file__)))
REPO = os.environ.get("VERIF_REPO", "/repo")
OUT = os.environ.get("VERIF_OUT", VERIF)   # where evidence/ and replays/ are written (default: /verif itself)
CACHE = os.path.join(OUT, ".cache") if OUT != VERIF else os.path.join(VERIF, ".cache")
NCPU = int(os.environ.get("VERIF_JOBS", str(os.cpu_count() or 8)))

COMMON = ["-std=gnu++20", "-I" + os.path.join(REPO, "include"), "-I" + VERIF, "-DJOHNMCFARLANE_CNL_VERIF",
          "-g1", "-fno-omit-frame-pointer", "-no-pie", "-fno-pie", "-Wno-deprecated-declarations"]
GSAN = ["-O1", "-DCNL_DEBUG", "-fsanitize=address,undefined,float-cast-overflow,float-divide-by-zero",
        "-fsanitize-undefined-trap-on-error"]
CSAN = ["-O1", "-DCNL_DEBUG", "-gdwarf-4", "-fsanitize=address,undefined,float-cast-overflow,float-divide-by-zero",
        "-fsanitize-trap=undefined,float-cast-overflow,float-divide-by-zero", "-fno-sanitize=object-size,function,vptr"]
GUB = ["-O1", "-DCNL_DEBUG", "-fsanitize=undefined,float-cast-overflow,float-divide-by-zero",
       "-fsanitize-undefined-trap-on-error"]
CONFIGS = {
    # default monitor build; GCC => intrinsic overflow path, GCC <bit> intrinsics
    "g-san": ("g++", GSAN),
    # Clang => portable overflow path, generic <bit>
    "c-san": ("clang++-14", CSAN),
    "g-port": ("g++", GSAN + ["-DCNL_VERIF_FORCE_PORTABLE_OVERFLOW"]),
    "c-intr": ("clang++-14", CSAN + ["-DCNL_VERIF_FORCE_BUILTIN_OVERFLOW"]),
    "g-noint": ("g++", GSAN + ["-DCNL_USE_GCC_INTRINSICS=0"]),
    # UBSan-trap only (faster; no ASan) for high-volume arithmetic
    "g-ub": ("g++", GUB),
    "g-ub-port": ("g++", GUB + ["-DCNL_VERIF_FORCE_PORTABLE_OVERFLOW"]),
    # "as shipped": exactly the suite's flags (+ unreachable trap)
    "g-rel": ("g++", ["-O2", "-DNDEBUG", "-fsanitize=unreachable", "-fsanitize-undefined-trap-on-error"]),
    "c-rel": ("clang++-14", ["-O2", "-DNDEBUG", "-fsanitize=unreachable", "-fsanitize-trap=unreachable"]),
    "g-rel-asan": ("g++", ["-O1", "-DNDEBUG", "-fsanitize=address"]),
}
RUN_ENV = {
    "ASAN_OPTIONS": "detect_leaks=0:abort_on_error=0:halt_on_error=1:allow_user_segv_handler=1:handle_segv=0:handle_sigill=0:handle_sigfpe=0:handle_abort=0:handle_sigbus=0:detect_stack_use_after_return=0:exitcode=77",
    "UBSAN_OPTIONS": "print_stacktrace=1",
}


class Inconclusive(Exception):
    pass


def log(*a):
    print(*a, file=sys.stderr, flush=True)


_tree_hash = None


def tree_hash():
    """hash of every file below /repo/include (rebuild rule: any edit to CNL changes every key)"""
    global _tree_hash
    if _tree_hash is None:
        h = hashlib.sha256()
        root = os.path.join(REPO, "include")
        for d, dirs, files in sorted(os.walk(root)):
            dirs.sort()
            for f in sorted(files):
                p = os.path.join(d, f)
                h.update(p.encode())
                with open(p, "rb") as fh:
                    h.update(fh.read())
        for sub in ("rt", "harness"):
            for d, dirs, files in sorted(os.walk(os.path.join(VERIF, sub))):
                dirs.sort()
                for f in sorted(files):
                    p = os.path.join(d, f)
                    h.update(p.encode())
                    with open(p, "rb") as fh:
                        h.update(fh.read())
        _tree_hash = h.hexdigest()
    return _tree_hash


_compiler_versions = {}


def compiler_version(cc):
    if cc not in _compiler_versions:
        _compiler_versions[cc] = subprocess.run([cc, "--version"], capture_output=True, text=True).stdout.split("\n")[0]
    return _compiler_versions[cc]


class Job:
    """one translation unit x one configuration"""

    def __init__(self, name, source, config, env=None, extra_flags=(), timeout=1800, allow_fail=False):
        self.name, self.source, self.config = name, source, config
        self.env = dict(env or {})
        self.extra_flags = list(extra_flags)
        self.timeout = timeout
        self.allow_fail = allow_fail
        self.binary = None
        self.build_log = ""
        self.records = []
        self.rc = None
        self.wall = 0.0
        self.build_ok = None
        self.keep_raw = False
        self.raw = []
        self.died = False
        self.done = False
        self.stderr = ""

    def key(self):
        cc, flags = CONFIGS[self.config]
        h = hashlib.sha256()
        for part in (tree_hash(), self.source, " ".join(COMMON + flags + self.extra_flags), compiler_version(cc)):
            h.update(part.encode())
            h.update(b"\0")
        return h.hexdigest()[:24]


def build(job):
    cc, flags = CONFIGS[job.config]
    k = job.key()
    os.makedirs(os.path.join(CACHE, "src"), exist_ok=True)
    os.makedirs(os.path.join(CACHE, "bin"), exist_ok=True)
    src = os.path.join(CACHE, "src", "%s-%s.cpp" % (job.name, k))
    binp = os.path.join(CACHE, "bin", "%s-%s-%s" % (job.name, job.config, k))
    job.binary = binp
    if os.path.exists(binp):
        job.build_ok = True
        return job
    with open(src, "w") as f:
        f.write(job.source)
    cmd = [cc] + COMMON + flags + job.extra_flags + [src, "-o", binp + ".tmp"]
    t0 = time.time()
    p = subprocess.run(cmd, capture_output=True, text=True)
    job.build_log = p.stderr
    if p.returncode != 0:
        job.build_ok = False
        os.makedirs(os.path.join(CACHE, "logs"), exist_ok=True)
        with open(os.path.join(CACHE, "logs", "%s-%s.build.log" % (job.name, job.config)), "w") as f:
            f.write(" ".join(cmd) + "\n" + p.stderr)
        # a kernel of the frozen universe no longer compiles on this tree: isolate it, keep the rest running
        if isinstance(job.source, TU) and job.source.stmts and len(job.source.stmts) > 1 and getattr(job, "reduce_depth", 0) < 6:
            t = job.source
            bad = set()
            for m in re.finditer(re.escape(src) + r":(\d+):\d+:", p.stderr):
                ln = int(m.group(1))
                if t.first_line <= ln < t.first_line + len(t.stmts):
                    bad.add(ln - t.first_line)
            if bad and len(bad) < len(t.stmts):
                m = re.search(r"error: (.*)", p.stderr)
                err = m.group(1)[:160] if m else "?"
                job.dropped = getattr(job, "dropped", []) + [(t.stmts[i][0], err) for i in sorted(bad)]
                job.source = tu(t.header, [st for i, st in enumerate(t.stmts) if i not in bad], t.prologue)
                job.reduce_depth = getattr(job, "reduce_depth", 0) + 1
                return build(job)
        return job
    os.replace(binp + ".tmp", binp)
    job.build_ok = True
    job.build_s = time.time() - t0
    return job


class LazyLines:
    """the non-JSON lines of a spilled log, read from disk on every iteration (keeps multi-GB logs of a thorough run out of memory)"""
    def __init__(self, path):
        self.path = path

    def __iter__(self):
        with open(self.path, errors="replace") as f:
            for line in f:
                line = line.strip()
                if line and not line.startswith("{"):
                    yield line

    def discard(self):
        try:
            os.unlink(self.path)
        except OSError:
            pass


def run_spilled(job):
    """like run(), but the binary's stdout goes to a file; only the JSON records are kept in memory"""
    env = dict(os.environ)
    env.update(RUN_ENV)
    env.update(job.env)
    t0 = time.time()
    d = os.path.join(CACHE, "raw")
    os.makedirs(d, exist_ok=True)
    path = os.path.join(d, "%s-%s-%d.log" % (job.name, job.config, os.getpid()))
    err = ""
    for attempt in (1, 2):
        with open(path, "w") as fo:
            try:
                p = subprocess.run([job.binary], stdout=fo, stderr=subprocess.PIPE, text=True, env=env, timeout=job.timeout, errors="replace")
                job.rc = p.returncode
                err = p.stderr
                break
            except subprocess.TimeoutExpired:
                job.rc = "timeout"
                err = "wall-clock watchdog fired (attempt %d)" % attempt
    job.wall = time.time() - t0
    job.stderr = err
    recs = []
    done = False
    with open(path, errors="replace") as f:
        for line in f:
            if not line.startswith("{"):
                continue
            try:
                r = json.loads(line)
            except Exception:
                continue
            if r.get("t") == "done":
                done = True
            recs.append(r)
    job.records = recs
    job.done = done
    job.raw = LazyLines(path)
    return job


def run(job):
    if getattr(job, "spill", False):
        return run_spilled(job)
    env = dict(os.environ)
    env.update(RUN_ENV)
    env.update(job.env)
    t0 = time.time()
    out = ""
    err = ""
    for attempt in (1, 2):
        try:
            p = subprocess.run([job.binary], capture_output=True, text=True, env=env, timeout=job.timeout, errors="replace")
            job.rc = p.returncode
            out, err = p.stdout, p.stderr
            break
        except subprocess.TimeoutExpired as e:
            job.rc = "timeout"
            out = (e.stdout or b"").decode(errors="replace") if isinstance(e.stdout, bytes) else (e.stdout or "")
            err = "wall-clock watchdog fired (attempt %d)" % attempt
    job.wall = time.time() - t0
    job.stderr = err
    recs = []
    done = False
    for line in out.split("\n"):
        line = line.strip()
        if not line.startswith("{"):
            if job.keep_raw and line:
                job.raw.append(line)
            continue
        try:
            r = json.loads(line)
        except Exception:
            continue
        if r.get("t") == "done":
            done = True
        recs.append(r)
    job.records = recs
    job.done = done
    return job


def build_and_run(jobs, label=""):
    t0 = time.time()
    with cf.ThreadPoolExecutor(NCPU) as ex:
        list(ex.map(build, jobs))
    bad = [j for j in jobs if not j.build_ok and not j.allow_fail]
    if bad:
        for j in bad[:3]:
            log("BUILD FAILED %s [%s]\n%s" % (j.name, j.config, "\n".join(j.build_log.split("\n")[:40])))
        raise Inconclusive("harness build failed: %s" % ", ".join("%s[%s]" % (j.name, j.config) for j in bad))
    tb = time.time() - t0
    runnable = [j for j in jobs if j.build_ok]
    with cf.ThreadPoolExecutor(NCPU) as ex:
        list(ex.map(run, runnable))
    log("%s built %d TUs in %.1fs, ran in %.1fs" % (label, len(jobs), tb, time.time() - t0 - tb))
    for j in runnable:
        faults = [r for r in j.records if r.get("t") == "harness_fault"]
        if faults:
            raise Inconclusive("harness fault in %s[%s]: %s" % (j.name, j.config, json.dumps(faults[0])))
        if j.rc == "timeout":
            raise Inconclusive("watchdog: %s[%s] did not finish in %ds (twice)" % (j.name, j.config, j.timeout))
        if not j.done:
            os.makedirs(os.path.join(CACHE, "logs"), exist_ok=True)
            with open(os.path.join(CACHE, "logs", "%s-%s.run.log" % (j.name, j.config)), "w") as f:
                f.write(j.stderr or "")
            # a binary that died outside a guarded case: its last words are kept for the engine to judge
            j.died = True
        else:
            j.died = False
    return jobs


def symbolize(binary, pcs):
    """map trap PCs to the innermost frame inside /repo/include ('file:line'), plus the full inline chain"""
    pcs = [p for p in dict.fromkeys(pcs) if p and p != "0x0"]
    res = {}
    if not pcs:
        return res
    p = subprocess.run(["addr2line", "-f", "-i", "-C", "-a", "-e", binary] + pcs, capture_output=True, text=True)
    cur = None
    frames = []
    for line in p.stdout.split("\n"):
        if line.startswith("0x") and " " not in line:
            if cur is not None:
                res[cur] = frames
            cur = "0x%x" % int(line, 16)
            frames = []
        elif line and ":" in line and (line.startswith("/") or line.startswith("?")):
            frames.append(line.split(" ")[0])
    if cur is not None:
        res[cur] = frames
    out = {}
    inc = os.path.join(REPO, "include") + "/"
    for pc, fr in res.items():
        site = None
        for f in fr:
            f = os.path.normpath(f) if f.startswith("/") else f
            if f.startswith(inc):
                site = f[len(inc):]
                break
        out[pc] = {"site": site, "chain": [os.path.normpath(f)[len(inc):] if os.path.normpath(f).startswith(inc) else os.path.basename(f) for f in fr if f.startswith("/")][:8]}
    return out


# ---------------------------------------------------------------- known findings
def load_known(prop):
    path = os.path.join(VERIF, "known_findings.json")
    if not os.path.exists(path):
        return []
    with open(path) as f:
        data = json.load(f)
    return [e for e in data.get("findings", []) if e.get("property") == prop and e.get("status") == "open"]


def match_known(known, kernel, cls, site=None, config=None):
    for e in known:
        if "class_re" in e:
            if not re.search(e["class_re"], cls):
                continue
        elif e.get("class") != cls:
            continue
        if not re.search(e["site"], kernel):
            continue
        if e.get("trap") and site and not re.search(e["trap"], site):
            continue
        if e.get("configs") and config not in e["configs"]:
            continue
        return e
    return None


# ---------------------------------------------------------------- result of one check
class Result:
    def __init__(self, prop, tier, seed):
        self.prop, self.tier, self.seed = prop, tier, seed
        self.t0 = time.time()
        self.evaluations = 0
        self.nontrivial = 0
        self.ood = 0
        self.notrun = 0
        self.kernels = {}          # config -> count
        self.kinds = {}
        self.classes = {}
        self.samples = []
        self.violations = []       # dicts
        self.known_hits = {}       # finding id -> count
        self.extra = {}
        self.inconclusive = []
        self.exhaustive_kernels = 0
        self.per_kernel_nontrivial = {}

    def absorb(self, job):
        """fold the tallies of one finished binary"""
        nk = 0
        pcs = []
        for r in job.records:
            if r.get("t") == "k":
                nk += 1
                self.evaluations += r["judged"]
                self.ood += r["ood"]
                self.notrun += r.get("notrun", 0)
                kk = r["k"]
                self.per_kernel_nontrivial[kk] = max(self.per_kernel_nontrivial.get(kk, 0), r["nontrivial"])
                if r.get("exhaustive"):
                    self.exhaustive_kernels += 1
                for k, v in r["kinds"].items():
                    self.kinds[k] = self.kinds.get(k, 0) + v
                for k, v in r.get("classes", {}).items():
                    self.classes[k] = self.classes.get(k, 0) + v
                if len(self.samples) < 12:
                    for s in r.get("samples", [])[:1]:
                        self.samples.append({"config": job.config, "kernel": kk, "inputs": s["in"], "expected": s["exp"], "observed": s["obs"]})
            elif r.get("t") == "v":
                for w in r["w"]:
                    pcs.append(w.get("pc"))
        self.kernels[job.config] = self.kernels.get(job.config, 0) + nk
        for desc, err in getattr(job, "dropped", []):
            self.violations.append({"config": job.config, "kernel": desc, "cls": "kernel_no_longer_compiles", "count": 1,
                                    "witnesses": [{"in": desc, "exp": "instantiates, as it did when the universe was frozen against the pinned tree", "obs": "does not compile: " + err}],
                                    "site": None, "chain": None, "binary": job.binary, "job": job.name})
        sym = symbolize(job.binary, pcs) if pcs else {}
        for r in job.records:
            if r.get("t") == "v":
                w0 = r["w"][0] if r["w"] else {}
                s = sym.get(w0.get("pc"), {})
                self.violations.append({"config": job.config, "kernel": r["k"], "cls": r["cls"], "count": r["n"],
                                        "witnesses": r["w"], "site": s.get("site"), "chain": s.get("chain"),
                                        "binary": job.binary, "job": job.name})
        return nk

    def add_tally(self, job, kernel, judged, ood, nontrivial, kinds=None, classes=None, samples=(), violations=None):
        """fold a tally computed by an offline (python) checker; violations: {cls: (count, [witness dicts])}"""
        self.evaluations += judged
        self.ood += ood
        self.per_kernel_nontrivial[kernel] = max(self.per_kernel_nontrivial.get(kernel, 0), nontrivial)
        for k, v in (kinds or {}).items():
            self.kinds[k] = self.kinds.get(k, 0) + v
        for k, v in (classes or {}).items():
            self.classes[k] = self.classes.get(k, 0) + v
        if len(self.samples) < 12:
            for s in list(samples)[:1]:
                self.samples.append(dict(s, config=job.config, kernel=kernel))
        for cls, (n, ws) in (violations or {}).items():
            self.violations.append({"config": job.config, "kernel": kernel, "cls": cls, "count": n, "witnesses": ws[:4], "site": None, "chain": None,
                                    "binary": job.binary, "job": job.name})

    def finish(self, rule, level_text=None, assumptions=(), extra=None, min_nontrivial=2):
        known = load_known(self.prop)
        new = []
        for v in self.violations:
            e = match_known(known, v["kernel"], v["cls"], v.get("site"), v.get("config"))
            if e:
                self.known_hits[e["id"]] = self.known_hits.get(e["id"], 0) + v["count"]
                v["known"] = e["id"]
            else:
                new.append(v)
        self.nontrivial = sum(self.per_kernel_nontrivial.values())
        os.makedirs(os.path.join(OUT, "replays"), exist_ok=True)
        os.makedirs(os.path.join(CACHE, "logs"), exist_ok=True)
        with open(os.path.join(CACHE, "logs", "%s-violations.json" % self.prop), "w") as f:
            json.dump([{k: v[k] for k in v if k != "binary"} for v in self.violations], f, indent=1)
        lines = []
        seen = set()
        for v in new:
            key = (v["kernel"], v["cls"], v.get("site"))
            if key in seen:
                continue
            seen.add(key)
            hid = hashlib.sha256(("%s|%s|%s|%s" % (self.prop, v["kernel"], v["cls"], v["config"])).encode()).hexdigest()[:12]
            path = os.path.join(OUT, "replays", "%s-%s.json" % (self.prop, hid))
            with open(path, "w") as f:
                json.dump({"property": self.prop, "tier": self.tier, "seed": self.seed, "config": v["config"], "kernel": v["kernel"],
                           "class": v["cls"], "count": v["count"], "witnesses": v["witnesses"], "trap_site": v.get("site"),
                           "inline_chain": v.get("chain"), "job": v.get("job")}, f, indent=1)
            if len(lines) < 40:
                lines.append("VIOLATION property=%s replay=%s" % (self.prop, path))
                w = v["witnesses"][0] if v["witnesses"] else {}
                log("  [%s] %s :: %s x%d  in=%s exp=%s obs=%s site=%s" % (v["config"], v["kernel"], v["cls"], v["count"], w.get("in"), w.get("exp"), w.get("obs"), v.get("site")))
        for e in known:
            n = self.known_hits.get(e["id"], 0)
            print("KNOWN-FINDING: property=%s %s %s [reconfirmed on %d cases this run]" % (self.prop, e["id"], e["what"], n))
        cov = {
            "evaluations": self.evaluations,
            "distinct_nontrivial": self.nontrivial,
            "rule": rule,
            "samples": self.samples[:12],
            "out_of_domain": self.ood,
            "not_run_after_ration": self.notrun,
            "kernels_per_config": self.kernels,
            "exhaustive_subspaces_completed": self.exhaustive_kernels,
            "outcome_histogram": self.kinds,
            "class_histogram": self.classes,
            "known_findings_reconfirmed": self.known_hits,
            "new_violation_keys": len(seen),
            "repo_tree_hash": tree_hash()[:16],
        }
        if extra:
            cov.update(extra)
        cov.update(self.extra)
        ev = {"property_id": self.prop, "tier": self.tier, "seed": self.seed, "level": "exploration", "coverage": cov,
              "assumptions": list(assumptions), "wall_s": round(time.time() - self.t0, 2), "violations": len(new)}
        if self.evaluations < 1 or self.nontrivial < min_nontrivial:
            self.inconclusive.append("monitor observed too little: evaluations=%d distinct_nontrivial=%d" % (self.evaluations, self.nontrivial))
        os.makedirs(os.path.join(OUT, "evidence"), exist_ok=True)
        with open(os.path.join(OUT, "evidence", "%s.json" % self.prop), "w") as f:
            json.dump(ev, f, indent=1)
        for l in lines:
            print(l)
        status = 1 if new else (2 if self.inconclusive else 0)
        print("%s tier=%s seed=%d: %d judged, %d distinct non-trivial, %d out of domain, %d new violation keys, %d known-finding cases, %.0fs%s" % (
            self.prop, self.tier, self.seed, self.evaluations, self.nontrivial, self.ood, len(seen), sum(self.known_hits.values()),
            time.time() - self.t0, ("  INCONCLUSIVE: " + "; ".join(self.inconclusive)) if self.inconclusive and not new else ""))
        return status


def shard(stmts, n):
    """split kernel statements into n translation units, round-robin (balances heavy kernels)"""
    n = max(1, min(n, len(stmts)))
    out = [[] for _ in range(n)]
    for i, s in enumerate(stmts):
        out[i % n].append(s)
    return out


class TU(str):
    """generated translation unit that remembers its kernel statements, so that a kernel which stops compiling can be isolated"""
    header = None
    stmts = None
    prologue = ""
    first_line = 0


def tu(header, stmts, prologue=""):
    head = '#include "harness/%s"\n%s\nint main() {\n    vf::install();\n' % (header, prologue)
    body = "\n".join("    if (vf::kernel_selected(%s)) { %s }" % (json.dumps(d), s) for d, s in stmts)
    t = TU(head + body + "\n    vf::finish();\n    return 0;\n}\n")
    t.header, t.stmts, t.prologue = header, list(stmts), prologue
    t.first_line = head.count("\n") + 1
    return t
