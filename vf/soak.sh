#!/bin/bash
# soak: run every check's quick (or thorough) tier for several seeds against a given tree, writing into a scratch output dir
# usage: vf/soak.sh <repo-tree> <outdir> <tier> <seed> [<seed>...]   ; prints one line per (check, seed)
REPO_TREE=$1; OUTD=$2; TIER=$3; shift 3
mkdir -p $OUTD
for seed in "$@"; do
  for p in C01 C02 C03 C04 C05 C06 C07 C08 C09 C10 C11 C12 C13 C14 C15 C16 C17 C18 C19 C20; do
    t0=$(date +%s)
    VERIF_REPO=$REPO_TREE VERIF_OUT=$OUTD VERIF_SEED=$seed python3 check.py $p --tier $TIER > $OUTD/$p-$TIER-$seed.log 2>&1
    rc=$?
    echo "$p tier=$TIER seed=$seed exit=$rc wall=$(( $(date +%s) - t0 ))s violations=$(grep -c '^VIOLATION' $OUTD/$p-$TIER-$seed.log) :: $(grep -E "^$p tier|INCONCLUSIVE" $OUTD/$p-$TIER-$seed.log | tail -1 | cut -c1-200)"
  done
done
