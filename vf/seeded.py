#!/usr/bin/env python3
"""Seeded-break campaign helper.
  verify <worktree> <mutdir>            confirm a candidate: demo fails with / passes without the patch, suite passes with it (in the scratch worktree)
  trial  <seeded-id> <Cxx> [<Cxx>...]   apply seeded/<id>/patch.diff to /repo, run the quick checks, undo; records results in seeded/<id>/meta.json
"""
import json
import os
import subprocess
import sys
import time

VERIF = os.path.dirname(os.path.dirname(os.path.abspath(__file__)))


def sh(cmd, cwd=None, timeout=3600):
    p = subprocess.run(cmd, shell=True, cwd=cwd, capture_output=True, text=True, timeout=timeout)
    return p.returncode, p.stdout + p.stderr


def verify(wt, mutdir):
    out = {}
    patch = os.path.join(mutdir, "patch.diff")
    demo = os.path.join(mutdir, "demo.cpp")
    sh("git checkout -- include", cwd=wt)
    rc, o = sh("g++ -std=gnu++20 -O1 -I%s/include %s -o %s/demo_clean && %s/demo_clean" % (wt, demo, mutdir, mutdir))
    out["demo_without_patch_rc"] = rc
    rc, o = sh("git apply --check %s && git apply %s" % (patch, patch), cwd=wt)
    if rc:
        out["error"] = "patch does not apply: " + o[-300:]
        return out
    files = sh("git diff --name-only", cwd=wt)[1].split()
    out["files"] = files
    out["only_include"] = all(f.startswith("include/") for f in files)
    rc, o = sh("g++ -std=gnu++20 -O1 -I%s/include %s -o %s/demo_mut && %s/demo_mut" % (wt, demo, mutdir, mutdir))
    out["demo_with_patch_rc"] = rc
    out["demo_with_patch_tail"] = o[-400:]
    if not os.path.exists(os.path.join(wt, "_build")):
        sh("cmake -G Ninja -B _build -DCMAKE_BUILD_TYPE=RelWithDebInfo -DCMAKE_CXX_FLAGS=-Wno-error -DCMAKE_PREFIX_PATH=/root/miniconda", cwd=wt)
    rc, o = sh("cmake --build _build -- -k 0 -j16 2>&1 | grep -E '^FAILED' ; ctest --test-dir _build -j8 -E benchmark 2>&1 | tail -14", cwd=wt, timeout=7200)
    out["suite_tail"] = o[-600:]
    failed = [l for l in o.split("\n") if l.startswith("FAILED")]
    out["suite_build_failures"] = failed
    notrun = [l.strip() for l in o.split("\n") if "(Not Run)" in l or "(Failed)" in l or "***" in l]
    out["suite_not_passed"] = notrun
    out["suite_ok"] = all(("test-unit-index" in l or "boost.multiprecision" in l) for l in failed + notrun) and "tests passed" in o
    sh("git checkout -- include", cwd=wt)
    return out


def trial(sid, props):
    d = os.path.join(VERIF, "seeded", sid)
    patch = os.path.join(d, "patch.diff")
    meta_p = os.path.join(d, "meta.json")
    meta = json.load(open(meta_p)) if os.path.exists(meta_p) else {}
    rc, o = sh("git -C /repo status --porcelain --untracked-files=no")
    if o.strip():
        print("refusing: /repo has local modifications")
        return 2
    rc, o = sh("git -C /repo apply " + patch)
    if rc:
        print("patch does not apply to /repo: " + o)
        return 2
    results = meta.setdefault("check_results", {})
    try:
        for p in props:
            t0 = time.time()
            rc, o = sh("python3 check.py %s --tier quick" % p, cwd=VERIF, timeout=7200)
            viol = [l for l in o.split("\n") if l.startswith("VIOLATION")]
            detail = [l.strip() for l in o.split("\n") if l.startswith("  [")][:4]
            results[p] = {"exit": rc, "violation_lines": len(viol), "first_witnesses": detail, "wall_s": round(time.time() - t0), "caught": rc == 1 and bool(viol)}
            print("%s vs %s: exit %d, %d VIOLATION lines %s" % (sid, p, rc, len(viol), "(CAUGHT)" if rc == 1 and viol else "(missed)" if rc == 0 else "(inconclusive)"))
            for l in detail[:2]:
                print("    " + l[:260])
    finally:
        sh("git -C /repo checkout -- .")
        sh("git checkout -- evidence", cwd=VERIF)
    meta["trial_cmd"] = "python3 vf/seeded.py trial %s %s" % (sid, " ".join(props))
    json.dump(meta, open(meta_p, "w"), indent=1)
    return 0


def batch(wid, prop, checks):
    """verify both mutants of an agent worktree, keep the confirmed ones under seeded/, trial them"""
    wt = "/tmp/mut/" + wid
    for v in ("a", "b"):
        md = os.path.join(wt, "_mut", v)
        if not os.path.exists(os.path.join(md, "patch.diff")):
            continue
        r = verify(wt, md)
        ok = r.get("demo_without_patch_rc") == 0 and r.get("demo_with_patch_rc") not in (0, None) and r.get("suite_ok") and r.get("only_include")
        print("%s/%s verify: demo clean rc=%s mutated rc=%s suite_ok=%s -> %s" % (wid, v, r.get("demo_without_patch_rc"), r.get("demo_with_patch_rc"), r.get("suite_ok"), "KEEP" if ok else "REJECT"))
        if not ok:
            print(json.dumps(r)[:600])
            continue
        sid = "%s-%s%s" % (prop, wid, v)
        d = os.path.join(VERIF, "seeded", sid)
        os.makedirs(d, exist_ok=True)
        for f in ("patch.diff", "demo.cpp", "notes.md"):
            if os.path.exists(os.path.join(md, f)):
                subprocess.run(["cp", os.path.join(md, f), d])
        notes = open(os.path.join(d, "notes.md")).read() if os.path.exists(os.path.join(d, "notes.md")) else ""
        meta = {"id": sid, "property": prop, "source": "independent sub-agent given only the property text and a scratch worktree", "files_changed": r.get("files"),
                "needs_to_manifest": notes[:1500], "confirmed": {"demo_without_patch_exit": r["demo_without_patch_rc"], "demo_with_patch_exit": r["demo_with_patch_rc"],
                                                                  "suite_with_patch": "all tests build and pass except the two targets that are Not Run on the unmodified tree too", "how": "python3 vf/seeded.py verify (scratch worktree, removed afterwards)"}}
        json.dump(meta, open(os.path.join(d, "meta.json"), "w"), indent=1)
        trial(sid, checks)


def summary():
    rows = []
    for sid in sorted(os.listdir(os.path.join(VERIF, "seeded"))):
        mp = os.path.join(VERIF, "seeded", sid, "meta.json")
        if not os.path.exists(mp):
            continue
        m = json.load(open(mp))
        res = m.get("check_results", {})
        caught = [p for p, r in res.items() if r.get("caught")]
        missed = [p for p, r in res.items() if not r.get("caught")]
        what = (m.get("summary") or m.get("needs_to_manifest", "").strip().split("\n")[0])[:160].replace("|", "/")
        first = ""
        for p in caught:
            w = res[p].get("first_witnesses") or []
            if w:
                first = w[0][:150].replace("|", "/")
                break
        rows.append("| %s | %s | %s | %s | %s | %s |" % (sid, m.get("property"), ", ".join(m.get("files_changed") or [])[:70], what, ", ".join(caught) or "-", ", ".join(missed) or "-"))
    out = ["# Seeded breaks: which checks catch which changes", "",
           "Every row is a change to johnmcfarlane/cnl produced independently (sub-agent given only the property text and a scratch worktree), confirmed to break the property (demo fails with / passes without), to compile and to pass the unedited suite.",
           "`caught by` lists the quick checks that exit 1 with a VIOLATION line when the patch is applied to /repo; details per mutant in `<id>/meta.json`.", "",
           "| id | property | files | what it needs | caught by | run but silent |", "|---|---|---|---|---|---|"] + rows
    open(os.path.join(VERIF, "seeded", "SUMMARY.md"), "w").write("\n".join(out) + "\n")
    print("\n".join(out[-len(rows):]))


if __name__ == "__main__":
    if sys.argv[1] == "summary":
        summary()
    elif sys.argv[1] == "batch":
        batch(sys.argv[2], sys.argv[3], sys.argv[4:])
    elif sys.argv[1] == "verify":
        print(json.dumps(verify(sys.argv[2], sys.argv[3]), indent=1))
    else:
        sys.exit(trial(sys.argv[2], sys.argv[3:]))
