#!/usr/bin/env python3
"""Regenerates /verif/MANIFEST.json from the table below (keeps it schema-valid at all times)."""
import json
import os
import subprocess

VERIF = os.path.dirname(os.path.dirname(os.path.abspath(__file__)))
TECH = "sanitizer-instrumented execution (ASan+UBSan trap mode, CNL abort hook) of generated kernels, judged by an independent exact oracle"
NOTE = ("Trusted base: the compilers' unsigned/128-bit integer arithmetic used by the oracle, Python big integers/Fractions for offline checkers, "
        "the harness code in /verif/rt and /verif/harness. Holds only for the executions listed in the evidence (exploration), never 'verified'.")

# property id -> (engine, claim text, design ref, technique override)
CLAIMED = {
    "C18": ("E-bits", "Every <bit>-style and digit-counting function compared with naive bit-loop references: exhaustive over 8/16-bit values (32-bit exhaustive in thorough), "
            "boundary lattice + seeded random for 64/128-bit, every rotation count 0..2w+1, under GCC intrinsics, GCC generic and Clang builds with UBSan traps attributed per input.",
            "DESIGN.md §4 C18", None),
}
CLAIMED["C06"] = ("E-overflow", "Every tagged +,-,*,/,<<, unary -, conversion (integer and floating sources), compound assignment and ++/-- over all 10x10 pairs of 8..128-bit signed/unsigned operand types and the three checked tags, "
                  "through _impl::operate, convert<> and overflow_integer, executed on exhaustive 8x8-bit pairs, boundary lattices, bound-solved operand pairs and all shift counts; each outcome (value / throw polarity / abort message) compared with the exact 256-bit result "
                  "against the C++ result type, on the GCC-intrinsic and the portable (Clang, or forced by hook H2) detection paths.", "DESIGN.md §4 C06", None)
CLAIMED["C07"] = ("E-overflow", "Same executions as C06 under ASan+UBSan(trap)+float-cast-overflow with the CNL abort hook: any trap, fatal signal, internal-error abort, foreign exception or hang on an in-domain operand is attributed to its input and reported.",
                  "DESIGN.md §4 C07", "UBSan/ASan trap monitoring with per-input attribution (sigsetjmp executor + CNL abort hook)")
CLAIMED["C05"] = ("E-elastic", "Generated elastic_integer / elastic_scaled_integer kernels (operator x digit pair x signedness x narrowest x exponents): every result compared with the exact 256-bit result, "
                  "checked to lie inside the range its own type declares and against the numeric_limits formula; declared ranges enumerated exhaustively for small digit sums, boundary lattices otherwise; UBSan traps attributed per input.",
                  "DESIGN.md §4 C05", None)
CLAIMED["C01"] = ("E-scaled", "Generated scaled_integer kernels (+,-,*,unary - over built-in 8..128-bit and elastic reps, exponent pairs in [-70,70], radix 2 and 10, plain-integer operands) from a frozen instantiable universe; "
                  "each result's rep, exponent and radix compared with exact 256-bit arithmetic on rep*radix^exponent inside the property's own domain (computed from values and C++ promotion rules); UBSan traps attributed per input.", "DESIGN.md §4 C01", None)
CLAIMED["C02"] = ("E-scaled", "Generated /, % and quotient() kernels: quotient rep == trunc(ra/rb) at exponent ea-eb, remainder == C++ remainder at exponent ea (hence the identity, sign and magnitude clauses), "
                  "quotient() == true quotient truncated toward zero at the result type's own resolution, for built-in (incl. mixed signedness) and elastic reps; exact 256-bit oracle.", "DESIGN.md §4 C02", None)
CLAIMED["C03"] = ("E-scaled+E-elastic", "All six comparison operators on generated scaled_integer (radix 2/10, exponent pairs), elastic_integer / elastic_scaled_integer (digit, signedness, narrowest pairs) kernels compared with the exact order of the denoted values, "
                  "plus oracle-independent mutual-consistency checks and the built-in-vs-wrapped clause.", "DESIGN.md §4 C03", None)
CLAIMED["C04"] = ("E-scaled", "Generated conversion kernels between scaled_integer instantiations, plain integers and float/double/long double: integer results compared online with the exact truncated quotient (static_cast and constructor must agree), "
                  "floating results logged and judged offline with exact rationals (nearest-even for scaled->float, truncation for float->scaled, round-trip identity), from_rep/to_rep and wrap/unwrap inverses.", "DESIGN.md §4 C04",
                  "sanitizer-instrumented execution judged online by an exact 256-bit oracle and offline by a python Fraction checker over the recorded event log")
CLAIMED["C08"] = ("E-round", "rounding_integer division (and _impl::divide<Tag>) for every rounding tag over generated operand-type pairs: 8x8-bit pairs exhaustively (all quadrants and ties), boundary lattices, seeded exact ties and near-ties for wider types, "
                  "compared with the exact quotient rounded by the mathematical definition of the mode; all other operators compared with the built-in ones.", "DESIGN.md §4 C08", None)
CLAIMED["C09"] = ("E-round", "Generated narrowing conversions under the four rounding tags: scaled_integer -> coarser scaled_integer (convert<> and the rounding_integer-rep route) judged online on 256-bit integers, float/double/long double -> integer and scaled_integer "
                  "(convert<> and constructors) logged and judged offline with exact rationals; sources include every tie of the destination lattice with float neighbours, limits and values where +0.5 is inexact.", "DESIGN.md §4 C09",
                  "sanitizer-instrumented execution judged online by an exact 256-bit oracle and offline by a python Fraction checker over the recorded event log")
CLAIMED["C13"] = ("E-text", "Every to_chars call (integer types incl. 128-bit, wide, elastic, overflow wrappers in six bases; scaled_integer over 8..64-bit reps, exponents in [-70,70], radix 2/3/8/10) runs inside a heap arena with ASan-poisoned, canaried surroundings "
                  "for every buffer length 0..capacity+2; the log is judged offline: no write/read outside the buffer, result pointer/errc contract, no abort/trap/hang (H3 tick budget), and the fixed-capacity variants always succeed; also in a -DNDEBUG ASan build.",
                  "DESIGN.md §4 C13", "ASan poisoning + canaries around caller buffers, UBSan traps, CNL abort hook and loop-tick hook; offline checker over the recorded call log")
CLAIMED["C14"] = ("E-text", "The texts produced by the C13 calls are parsed by an independent grammar and compared exactly (python Fractions) with the value: canonical numerals for integers in every base; sign, never-exceeds, one-unit(+significand-limit) error bound and the "
                  "18-digit exactness clause for scaled_integer; agreement of to_string / to_chars_static / operator<< with to_chars.", "DESIGN.md §4 C14", "offline exact-rational checker over the recorded to_chars event log")
CLAIMED["C16"] = ("E-fraction", "fraction + - * /, unary, six comparisons, reduce, canonical, std::hash and conversion to double against exact rationals: all pairs with components in [-12,12] (every sign pattern), thinned boundary lattices for wider types, all 2^16 fraction<int8_t> for the unary functions; "
                  "hash checked by grouping fractions by exact canonical value.", "DESIGN.md §4 C16", None)
CLAIMED["C17"] = ("E-fraction", "fraction<T>(x) / make_fraction<T>(x) for int16/32/64 x float/double/long double over an exponent x mantissa lattice, small ratios, decimal fractions, near-limit and tiny values and seeded random inputs, each construction logged with its mediant-iteration count (hook H3) "
                  "and judged offline against the full statement; inputs are split by a predicate on x into an easy class (judged strictly) and a hard class whose deviations are the recorded finding KF-C17-01.", "DESIGN.md §4 C17",
                  "logical step counter (tick hook) + sanitizer traps + offline exact-rational checker over the recorded event log")
CLAIMED["C19"] = ("E-math", "cnl::sqrt on built-in integers (8/16-bit exhaustively, 32-bit exhaustively in thorough, 64/128-bit at the top of the range, at perfect squares and their neighbours), elastic_integer<D> for D in 1..63 (result within (D+1)/2 digits) and "
                  "scaled_integer over 8..64-bit reps and even exponents in [-60,60] (result exponent E/2): r*r <= x < (r+1)^2 checked on 256-bit integers; CPU watchdog for termination.", "DESIGN.md §4 C19", None)
CLAIMED["C20"] = ("E-math", "cnl::exp2 over every scaled_integer format with an 8..32-bit rep and at least one integer bit: 8/16-bit reps exhaustively, 32-bit on a seeded stride, dense windows and random inputs; results logged and compared offline with floor(2^x/2^E) from a 256-bit fixed-point "
                  "evaluation (integer square roots), exactness for integral x; all <numbers> constants for every (Rep 8..64 bit, exponent with room) compared with 80-digit values.", "DESIGN.md §4 C20",
                  "sanitizer-instrumented execution with an offline exact (256-bit fixed-point / 80-digit) checker over the recorded event log")
CLAIMED["C12"] = ("E-native", "Generated kernels (9 wrapper nestings x 8 built-in types x 33 operator forms, frozen instantiable universe) compare every native-tag wrapper expression with the same built-in expression in the same binary - value and result type - "
                  "on exhaustive 8-bit (thorough: 16-bit) operand pairs and boundary/random pairs for wider types, in the sanitizer build and in the suite's own -O2 -DNDEBUG build; plus the documented fixed-point kernels against shift-and-operate twins. "
                  "Equivalence as compiled IR / over all 2^64 operand pairs is NOT claimed (out of reach of execution).", "DESIGN.md §4 C12 and §5", "differential execution against the built-in twin expression under sanitizers and in the release configuration")
CLAIMED["C10"] = ("E-wide", "wide_integer over single-word and multi-limb storage (8/16/32/64-bit limbs, signed/unsigned, 65..2048 digits): operands are written into and results read from the limb array directly; + - * / % & | ^ unary -, ++/--, shifts by every class of count, "
                  "six comparisons, conversions to/from 32/64-bit integers and three floating types, decimal text and numeric_limits are logged and compared offline with python integers reduced to N-bit two's complement; ASan+UBSan watch uintwide_t.", "DESIGN.md §4 C10",
                  "sanitizer-instrumented execution with an offline big-integer checker over the recorded event log")
CLAIMED["C15"] = ("E-parse", "Run-time parse<T> on generated tokens (all lengths, four bases, signs, separators, stride-boundary lengths) under ASan+UBSan with results read from storage and compared with python int(); literal operators _c/_wide/_cnl/_cnl2 and the "
                  "constant-driven factories in generated translation units whose deduced type facts and values are printed at run time and judged offline; a well-formed literal that does not compile is recorded as an outcome from the compiler diagnostics.",
                  "DESIGN.md §4 C15", "sanitizer-instrumented execution of generated programs + compiler constant-evaluator diagnostics, judged by an offline python checker")
CLAIMED["C11"] = ("E-shadow", "Generated expression chains over static_integer/static_number (frozen instantiable universe; digits up to 100, exponents in [-40,40], four rounding tags, saturated/throwing/trapping tags, int8/16/32/64 narrowest) executed in lock-step with exact 256-bit "
                  "rational shadow values: every step must yield the exact (or correctly rounded) value, or the tag's overflow signal exactly when the result leaves the result type's range; any trap, foreign abort or silent mismatch names the step, operands and leaves.",
                  "DESIGN.md §4 C11", "online lock-step shadow execution (trace checker) under ASan+UBSan with the CNL abort hook")
PLANNED = {}


def main():
    props = [json.loads(l) for l in open(os.path.join(VERIF, "properties.jsonl"))]
    hooks = subprocess.run(["git", "-C", "/repo", "log", "--format=%h", "--grep=^verif hook"], capture_output=True, text=True).stdout.split()
    checks = []
    na = []
    for p in props:
        pid = p["id"]
        if pid in CLAIMED:
            eng, text, ref, tech = CLAIMED[pid]
            checks.append({
                "property_id": pid,
                "quick_cmd": "python3 check.py %s --tier quick" % pid,
                "thorough_cmd": "python3 check.py %s --tier thorough" % pid,
                "evidence_file": "evidence/%s.json" % pid,
                "replay_cmd_template": "python3 check.py %s --replay {path}" % pid,
                "engine": eng,
                "level_claimed": {"category": "exploration", "text": text, "design_ref": ref},
                "level_note": NOTE,
                "technique": tech or TECH,
            })
        else:
            na.append({"property_id": pid, "reason": PLANNED.get(pid, "not claimed yet: the monitor for this property is not built in this state of /verif (runtime monitoring does apply; see DESIGN.md §4 " + pid + ")")})
    engines = {}
    for c in checks:
        engines.setdefault(c["engine"], []).append(c["property_id"])
    m = {
        "version": 1,
        "setup_cmd": "python3 check.py --setup",
        "hooks": {
            "guard": "JOHNMCFARLANE_CNL_VERIF",
            "enable": "-DJOHNMCFARLANE_CNL_VERIF on every harness compile line (header-only library: there is no separate build of /repo); H2 additionally -DCNL_VERIF_FORCE_PORTABLE_OVERFLOW / -DCNL_VERIF_FORCE_BUILTIN_OVERFLOW",
            "baseline_off_cmd": "cmake --build /repo/_build -- -k 0 ; ctest --test-dir /repo/_build -j8 --timeout 900",
            "source_commits": hooks,
            "add_only": True,
        },
        "engines": [{"name": e, "path": "vf/engines + harness", "serves_properties": ps, "kind_free_text": "generated C++ kernels over the real CNL headers, sanitizer builds, guarded case executor, exact oracle"} for e, ps in sorted(engines.items())],
        "checks": checks,
        "not_applicable": na,
        "notes": "All checks: cwd=/verif, honour VERIF_SEED and VERIF_TIER, rebuild harness binaries from /repo's current headers (cache key hashes every file under /repo/include), write evidence/<id>.json, exit 0/1/2 (2 = inconclusive). Known findings: known_findings.json.",
    }
    with open(os.path.join(VERIF, "MANIFEST.json"), "w") as f:
        json.dump(m, f, indent=1)
    print("MANIFEST.json: %d checks, %d not claimed" % (len(checks), len(na)))


if __name__ == "__main__":
    main()
