"""C10 - wide_integer behaves as an N-bit two's-complement integer (engine E-wide, offline big-integer judge)."""
import random
from fractions import Fraction as Fr

from .. import core
from . import big
from .c04 import hexl


def _bw(d, n):
    t = "cnl::wide_integer<%d,%s>" % (d, NARROW_[n])
    return ("big wide<%d,%s> [+-*/%%<]" % (d, n), t, t, "+-*/%<", 0)


NARROW_ = {"i8": "signed char", "u8": "unsigned char", "i16": "short", "u16": "unsigned short", "i32": "int", "u32": "unsigned", "i64": "std::int64_t", "u64": "std::uint64_t"}
# Karatsuba-sized storage (>= 129 limbs: 136 and 272 limbs), 2*odd limb counts just below the threshold (126 limbs), odd limb counts above it (129, 151),
# and a 64-bit-limb type above the threshold
BIGQ = 6
BIG = [_bw(1087, "i8"), _bw(1008, "u8"), _bw(4351, "i32"), _bw(1032, "u8"), _bw(2016, "u16"), _bw(1207, "i8"), _bw(2175, "i16"), _bw(2176, "u8"), _bw(8703, "i64"), _bw(3000, "i16"), _bw(5000, "u32")]

NARROW = {"i8": "signed char", "u8": "unsigned char", "i16": "short", "u16": "unsigned short", "i32": "int", "u32": "unsigned", "i64": "std::int64_t", "u64": "std::uint64_t"}
CORE = [(65, "i32"), (100, "u32"), (127, "i32"), (128, "i32"), (128, "u32"), (129, "i8"), (200, "i32"), (256, "u32"), (255, "i16"), (300, "i64"), (130, "u16"), (512, "u64"),
        (256, "u64"), (200, "i64"), (192, "u64"), (129, "i64")]
MORE = [(96, "i32"), (257, "i32"), (500, "i32"), (1000, "i64"), (1024, "u8"), (2047, "i32"), (2048, "u64"), (129, "i64"), (200, "u8"), (200, "i16"), (200, "u64"), (256, "i8"), (383, "i32"), (640, "u16"), (136, "i8"), (72, "u8"), (1032, "u8")]
RULE = ("kernel = wide_integer<Digits, Narrowest> (limb types of 8/16/32/64 bits, signed and unsigned, single-word __int128 storage and multi-limb storage). Operands are written directly into the limb array and results read back from it "
        "(so neither goes through the conversion code under test): 0, +-1, 2^k and 2^k+-1 across limb boundaries and at the top, two's complements, limb patterns for long-division corner cases (0x80.., 0x7f.., 0xff..fe, high/low halves), long carry chains "
        "and seeded random values; every operand is paired with itself, 0, 1 and random partners for + - * / % & | ^ and the six comparisons; unary -, ++/--, << and >> for counts in [0, N), conversions to/from 32/64-bit integers and float/double/long double, "
        "decimal text and numeric_limits. The log is judged offline with python integers reduced to N-bit two's complement (N = storage width; division truncating, >> arithmetic for signed; to-floating must be one of the two floats bracketing the value). "
        "distinct_nontrivial counts logged operations whose exact (unreduced) result differs from the reduced one, crosses a limb boundary, or involves a negative operand.")


def kernels(tier, seed):
    rng = random.Random("C10-%d" % seed)
    ts = CORE + (MORE if tier == "thorough" else rng.sample(MORE, 3))
    return [("wide<%d,%s>" % (d, n), "c10::wide<cnl::wide_integer<%d,%s>>" % (d, NARROW[n])) for d, n in ts]


def sval(u, bits, sg):
    return u - (1 << bits) if sg and (u >> (bits - 1)) & 1 else u


def tdiv(a, b):
    q = abs(a) // abs(b)
    return q if (a < 0) == (b < 0) else -q


MANT = {"to_f32": 24, "to_f64": 53, "to_f80": 64}
FMAX = {"to_f32": 128, "to_f64": 1024, "to_f80": 16384}


def judge(res, job, only_ops=None):
    kd = {r["id"]: r for r in job.records if r.get("t") == "kd"}
    tall = {}
    for line in job.raw:
        p = line.split(" ")
        if len(p) < 7 or p[0] != "W":
            continue
        if only_ops and p[2] not in only_ops:
            continue
        kid = int(p[1])
        k = kd.get(kid)
        if not k:
            continue
        t = tall.setdefault(kid, {"judged": 0, "ood": 0, "nt": 0, "kinds": {}, "classes": {}, "samples": [], "viol": {}})
        op, ah, bh, kind, rh = p[2], p[3], p[4], p[5], " ".join(p[6:])
        N, sg, D = k["bits"], bool(k["signed"]), k["digits"]
        mod = 1 << N
        def viol(cls, exp):
            n, ws = t["viol"].get(cls, (0, []))
            if len(ws) < 4:
                ws.append({"in": "%s %s %s" % (ah, op, bh), "exp": exp, "obs": kind + " " + rh})
            t["viol"][cls] = (n + 1, ws)
        def tohex(v):
            return "%0*x" % (N // 4, v % mod)
        if op == "limits":
            t["judged"] += 1
            mx, lo = sval(int(rh.split()[0], 16), N, sg), sval(int(rh.split()[1], 16), N, sg)
            if mx != (1 << D) - 1 or lo != (-(1 << D) if sg else 0):
                viol("numeric_limits", "max=2^%d-1 lowest=%s" % (D, "-2^%d" % D if sg else "0"))
            continue
        if kind != "VALUE" and (op.startswith("from_") or op.startswith("to_") or op == "text"):
            t["judged"] += 1
            t["kinds"][kind] = t["kinds"].get(kind, 0) + 1
            if op.startswith("from_f") and not k["multiword"]:
                # built-in __int128 storage: an out-of-range float conversion is UB by the language; judged only when a value comes back
                t["judged"] -= 1
                t["ood"] += 1
                continue
            viol("event:" + kind + ":" + op, "a value")
            continue
        want = None
        nt = False
        if op.startswith("from_"):
            if op in ("from_i64", "from_u64", "from_i32"):
                v = int(ah)
                want = tohex(v)
                nt = v < 0 or v >= mod
            else:
                x = hexl(ah)
                if x is None:
                    t["ood"] += 1
                    continue
                tr = x.numerator // x.denominator if x >= 0 else -((-x.numerator) // x.denominator)
                if not sg and tr < 0:
                    t["ood"] += 1
                    continue
                if not k["multiword"] and not (-(1 << (N - 1)) <= tr < (1 << (N - (1 if sg else 0)))):
                    t["ood"] += 1
                    continue
                if abs(tr) >= (1 << (N - (1 if sg else 0))):
                    t["classes"]["from_float_out_of_range(info)"] = t["classes"].get("from_float_out_of_range(info)", 0) + 1
                    t["ood"] += 1
                    continue
                want = tohex(tr)
                nt = x.denominator != 1 or tr < 0
            t["judged"] += 1
            if rh != want:
                viol("wrong:" + op, want)
            elif nt:
                t["nt"] += 1
            continue
        a = sval(int(ah, 16), N, sg)
        b = None
        if bh != "-":
            b = int(bh) if op in ("<<", ">>") else sval(int(bh, 16), N, sg)
        exact = None
        if op == "+": exact = a + b
        elif op == "-": exact = a - b
        elif op == "*": exact = a * b
        elif op == "&": exact = a & b
        elif op == "|": exact = a | b
        elif op == "^": exact = a ^ b
        elif op == "/": exact = tdiv(a, b)
        elif op == "%": exact = a - tdiv(a, b) * b
        elif op == "neg": exact = -a
        elif op in ("++x", "x++"): exact = a + 1
        elif op in ("--x", "x--"): exact = a - 1
        elif op == "<<": exact = a << b
        elif op == ">>": exact = a >> b
        if exact is not None and not k["multiword"] and sg and not (-(1 << (N - 1)) <= (tdiv(a, b) if op == "%" else exact) < (1 << (N - 1))):
            # single-word storage is a built-in __int128: signed overflow is undefined by the language itself
            t["ood"] += 1
            continue
        t["judged"] += 1
        t["kinds"][kind] = t["kinds"].get(kind, 0) + 1
        if kind != "VALUE":
            viol("event:" + kind + ":" + op, "a value")
            continue
        if exact is not None:
            want = tohex(exact)
            nt = a < 0 or (b is not None and op not in ("<<", ">>") and b < 0) or not ((-(1 << (N - 1)) if sg else 0) <= exact < (1 << (N - (1 if sg else 0)))) or exact.bit_length() % 8 in (0, 1)
            if rh != want:
                viol("wrong:" + op, want)
            else:
                if nt:
                    t["nt"] += 1
                if len(t["samples"]) < 2 and nt and op in ("*", "/", "%"):
                    t["samples"].append({"inputs": "%s %s %s" % (ah, op, bh), "expected": want, "observed": rh})
        elif op in ("<", "<=", ">", ">=", "==", "!="):
            w = {"<": a < b, "<=": a <= b, ">": a > b, ">=": a >= b, "==": a == b, "!=": a != b}[op]
            if rh != ("1" if w else "0"):
                viol("wrong:" + op, "1" if w else "0")
            elif a < 0 or b < 0:
                t["nt"] += 1
        elif op in ("to_i64", "to_u64", "to_i32"):
            bits = 32 if op == "to_i32" else 64
            w = a % (1 << bits)
            if op != "to_u64" and w >> (bits - 1):
                w -= 1 << bits
            # narrowing an out-of-range value: built-in storage => implementation-defined modular (checked); multi-limb => low bits
            if rh != str(w):
                viol("wrong:" + op, str(w))
            elif a < 0:
                t["nt"] += 1
        elif op in MANT:
            x = hexl(rh)
            if x is None or abs(a) >= (1 << FMAX[op]) // 2:
                t["judged"] -= 1
                t["ood"] += 1
                continue
            m = MANT[op]
            if a == 0:
                ok = x == 0
            else:
                e = abs(a).bit_length()
                ulp = Fr(2) ** max(e - m, -20000)
                ok = abs(x - a) < ulp  # faithful: one of the two floats bracketing the value
            if not ok:
                viol("wrong:" + op, "a float within one ulp of %d" % a)
            elif abs(a).bit_length() > m:
                t["nt"] += 1
        elif op == "text":
            if rh != str(a):
                viol("wrong:text", str(a))
            elif a < 0:
                t["nt"] += 1
        else:
            t["judged"] -= 1
    for kid, t in tall.items():
        res.add_tally(job, kd[kid]["k"], t["judged"], t["ood"], t["nt"], t["kinds"], t["classes"], t["samples"], t["viol"])
    res.kernels[job.config] = res.kernels.get(job.config, 0) + len(tall)


MIXED = [((200, "i64"), "unsigned", "u32"), ((256, "u64"), "int", "i32"), ((200, "i32"), "long", "i64"), ((129, "i8"), "short", "i16"), ((256, "u32"), "unsigned long", "u64"), ((192, "u64"), "signed char", "i8"),
         ((300, "i64"), "int", "i32"), ((128, "u32"), "int", "i32")]


def judge_mixed(res, job):
    """wide_integer op built-in integer (both orders): the exact result reduced to the result type's storage width"""
    kd = {r["id"]: r for r in job.records if r.get("t") == "kd" and "bbits" in r}
    tall = {}
    for line in job.raw:
        p = line.split(" ")
        if len(p) != 10 or p[0] != "M":
            continue
        k = kd.get(int(p[1]))
        if not k:
            continue
        t = tall.setdefault(int(p[1]), {"judged": 0, "ood": 0, "nt": 0, "kinds": {}, "classes": {}, "samples": [], "viol": {}})
        op, order, ah, bd, kind, rh, rbits, rsg = p[2], int(p[3]), p[4], int(p[5]), p[6], p[7], int(p[8]), int(p[9])
        a = sval(int(ah, 16), k["bits"], bool(k["signed"]))
        if abs(a) >> k["digits"] and not (k["signed"] and a == -(1 << k["digits"])):
            t["ood"] += 1   # storage patterns above the declared digits are outside numeric_limits
            continue
        x, y = (a, bd) if order == 0 else (bd, a)
        exact = x + y if op == "+" else x - y if op == "-" else x * y if op == "*" else tdiv(x, y) if op == "/" else x - tdiv(x, y) * y
        t["judged"] += 1
        t["kinds"][kind] = t["kinds"].get(kind, 0) + 1
        want = "%0*x" % (rbits // 4, exact % (1 << rbits))
        nt = a < 0 or bd < 0 or not (-(1 << (rbits - 1)) <= exact < (1 << (rbits - 1)))
        if kind != "VALUE" or rh != want:
            cls = ("event:" + kind + ":mixed:" + op) if kind != "VALUE" else "wrong:mixed:%s:%s_wide_%s_builtin%s" % (op, "signed" if k["signed"] else "unsigned", "signed" if k["bsigned"] else "unsigned", "" if order == 0 else ":builtin_first")
            if kind == "VALUE" and not k["signed"] and k["bsigned"]:
                # defect model (KF-C10-02): the built-in operand is first converted to the unsigned wide operand's own type, the operation is
                # performed there (modulo 2^bits) and the result zero-extended into the (signed, wider) result type
                N = k["bits"]
                bw = bd % (1 << N)
                xm, ym = (a, bw) if order == 0 else (bw, a)
                try:
                    m = xm + ym if op == "+" else xm - ym if op == "-" else xm * ym if op == "*" else xm // ym if op == "/" else xm % ym
                    if rh == "%0*x" % (rbits // 4, (m % (1 << N)) % (1 << rbits)):
                        cls += ":operand_converted_to_the_unsigned_wide_type"
                except ZeroDivisionError:
                    pass
            n, ws = t["viol"].get(cls, (0, []))
            if len(ws) < 4:
                ws.append({"in": "%s %s %d (order %d) = %d" % (ah, op, bd, order, exact), "exp": want + " (%d-bit %s result)" % (rbits, "signed" if rsg else "unsigned"), "obs": kind + " " + rh})
            t["viol"][cls] = (n + 1, ws)
        elif nt:
            t["nt"] += 1
    for kid, t in tall.items():
        res.add_tally(job, kd[kid]["k"], t["judged"], t["ood"], t["nt"], t["kinds"], t["classes"], t["samples"], t["viol"])
    res.kernels[job.config] = res.kernels.get(job.config, 0) + len(tall)


def mixed_jobs(tier, seed, only=None):
    specs = [("wide<%d,%s> with %s" % (d, n, bn), 'c10::wide_mixed<cnl::wide_integer<%d,%s>, %s>' % (d, NARROW[n], bc)) for (d, n), bc, bn in MIXED]
    if only:
        specs = [s for s in specs if s[0] == only["kernel"]]
    jobs = []
    for cfg in ([only["config"]] if only else ["g-san"] if tier == "quick" else ["g-san", "c-san"]):
        for i, (d, c) in enumerate(specs):
            j = core.Job("c10m-%d" % i, core.tu("c10.h", [(d, '%s("%s", %d);' % (c, d, i))]), cfg, env={"VERIF_SEED": str(seed)}, extra_flags=["-DCNL_USE_IOSTREAMS=1"], timeout=3600)
            j.keep_raw = True
            jobs.append(j)
    return jobs


def make_jobs(tier, seed, only=None, prefix="c10"):
    ks = kernels(tier, seed)
    if only:
        ks = [k for k in kernels("thorough", seed) if k[0] == only["kernel"]]
    cfgs = ["g-san"] if tier == "quick" else ["g-san", "c-san"]
    if only:
        cfgs = [only["config"]]
    env = {"VERIF_SEED": str(seed), "VERIF_NRAND": "40" if tier == "quick" else "400", "VERIF_PAIRS": "3000" if tier == "quick" else "60000", "VERIF_NFLOAT": "300" if tier == "quick" else "5000"}
    jobs = []
    for cfg in cfgs:
        for i, (d, c) in enumerate(ks):
            j = core.Job("%s-%d" % (prefix, i), core.tu("c10.h", [(d, '%s("%s", %d);' % (c, d, i))]), cfg, env=env, extra_flags=["-DCNL_USE_IOSTREAMS=1"], timeout=3600)
            j.keep_raw = True
            jobs.append(j)
    return jobs, ks


def run(tier, seed, only=None):
    res = core.Result("C10", tier, seed)
    jobs, ks = make_jobs(tier, seed, only)
    bigjobs = big.make_jobs("c10", BIG if tier == "thorough" or only else BIG[:BIGQ], tier, seed, ["g-san"] if tier == "quick" else ["g-san", "c-san"], only, wrap=True)
    mjobs = mixed_jobs(tier, seed, only)
    core.build_and_run(jobs + bigjobs + mjobs, "C10")
    for j in mjobs:
        res.absorb(j)
        judge_mixed(res, j)
        if j.died:
            res.inconclusive.append("binary %s[%s] died outside a guarded case (rc=%s)" % (j.name, j.config, j.rc))
    for j in bigjobs:
        res.absorb(j)
        j.post(res, j)
        if j.died:
            res.inconclusive.append("binary %s[%s] died outside a guarded case (rc=%s)" % (j.name, j.config, j.rc))
    for j in jobs:
        res.absorb(j)
        judge(res, j)
        if j.died:
            res.inconclusive.append("binary %s[%s] died outside a guarded case (rc=%s)" % (j.name, j.config, j.rc))
    res.extra["types"] = [k[0] for k in ks]
    res.extra["not_instantiable"] = ["unary ~ on a multi-limb wide_integer", "same-width signed vs unsigned wide_integer comparison (ambiguous)"]
    return res.finish(RULE + big.RULE, assumptions=["N is the storage width W (make_uintwide rounds Digits+sign up to whole limbs); numeric_limits follow the declared Digits",
                                         "to-floating is judged as faithful (one of the two bracketing floats), from-floating as truncation toward zero; results outside the representable range are out of domain",
                                         "offline checker: python integers; limbs are read and written directly"])


def compare_jobs(tier, seed, env):
    """C03 (wide part): the same kernels, judged for the six comparison operators only"""
    jobs, ks = make_jobs(tier, seed, prefix="c03w")
    for j in jobs:
        j.post = lambda res, job: judge(res, job, only_ops=("<", "<=", ">", ">=", "==", "!="))
    return jobs


CROSS = [((150, "i32"), (300, "i32")), ((300, "i32"), (150, "i32")), ((200, "i32"), (129, "i8")), ((256, "u32"), (512, "u64")), ((65, "i32"), (200, "i32")), ((128, "u32"), (256, "u32")),
         ((200, "i32"), (200, "i16")), ((129, "i64"), (300, "i64")), ((100, "u32"), (200, "u32")), ((127, "i32"), (255, "i16"))]


def judge_cross(res, job):
    kd = {r["id"]: r for r in job.records if r.get("t") == "kd"}
    tall = {}
    for line in job.raw:
        p = line.split(" ")
        if len(p) != 7 or p[0] != "C":
            continue
        k = kd.get(int(p[1]))
        if not k:
            continue
        t = tall.setdefault(int(p[1]), {"judged": 0, "ood": 0, "nt": 0, "kinds": {}, "classes": {}, "samples": [], "viol": {}})
        op, ah, bh, kind, r = p[2], p[3], p[4], p[5], p[6]
        a = sval(int(ah, 16), k["bits1"], bool(k["signed1"]))
        b = sval(int(bh, 16), k["bits2"], bool(k["signed2"]))
        t["judged"] += 1
        want = {"<": a < b, "<=": a <= b, ">": a > b, ">=": a >= b, "==": a == b, "!=": a != b, "r<": b < a, "r==": b == a}[op]
        nt = a < 0 or b < 0 or abs(a).bit_length() > min(k["digits1"], k["digits2"]) or abs(b).bit_length() > min(k["digits1"], k["digits2"])
        if kind != "VALUE" or r != ("1" if want else "0"):
            # values above the declared digits of their own type are outside numeric_limits: not judged
            if abs(a).bit_length() > k["digits1"] or abs(b).bit_length() > k["digits2"]:
                t["judged"] -= 1
                t["ood"] += 1
                continue
            cls = ("event:" + kind) if kind != "VALUE" else ("cross_width_comparison_wrong:" + ("wider_operand_exceeds_narrower_width" if max(abs(a).bit_length(), abs(b).bit_length()) > min(k["bits1"], k["bits2"]) - 1 else "other"))
            n, ws = t["viol"].get(cls, (0, []))
            if len(ws) < 4:
                ws.append({"in": "%s %s %s" % (ah, op, bh), "exp": "1" if want else "0", "obs": kind + " " + r})
            t["viol"][cls] = (n + 1, ws)
        elif nt:
            t["nt"] += 1
    for kid, t in tall.items():
        res.add_tally(job, kd[kid]["k"], t["judged"], t["ood"], t["nt"], t["kinds"], t["classes"], t["samples"], t["viol"])
    res.kernels[job.config] = res.kernels.get(job.config, 0) + len(tall)


def cross_jobs(tier, seed, env):
    """C03 (wide part): comparisons between wide_integer types of different widths"""
    jobs = []
    e = dict(env, VERIF_PAIRS="1500" if tier == "quick" else "20000")
    for i, ((d1, n1), (d2, n2)) in enumerate(CROSS):
        d = "wide<%d,%s> cmp wide<%d,%s>" % (d1, n1, d2, n2)
        j = core.Job("c03x-%d" % i, core.tu("c10.h", [(d, 'c10::wide_cmp<cnl::wide_integer<%d,%s>, cnl::wide_integer<%d,%s>>("%s", %d);' % (d1, NARROW[n1], d2, NARROW[n2], d, i))]), "g-san", env=e,
                     extra_flags=["-DCNL_USE_IOSTREAMS=1"], timeout=3600, allow_fail=True)
        j.keep_raw = True
        j.post = judge_cross
        jobs.append(j)
    return jobs
