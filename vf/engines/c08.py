"""C08 - integer division under a rounding mode (engine E-round)."""
import random
from .. import core

INTS = [("signed char", "i8"), ("unsigned char", "u8"), ("short", "i16"), ("unsigned short", "u16"), ("int", "i32"), ("unsigned", "u32"), ("long", "i64"), ("unsigned long", "u64")]
MODES = [("Nat", "native"), ("Nea", "nearest"), ("Tie", "tie_to_pos_inf"), ("Flo", "neg_inf")]
E = "cnl::elastic_integer"
CLASS_REPS = [((E + "<10>", "e10"), (E + "<10>", "e10")), ((E + "<20>", "e20"), (E + "<7,signed char>", "e7c")), ((E + "<40>", "e40"), (E + "<33>", "e33")), ((E + "<62>", "e62"), (E + "<31>", "e31")),
              ((E + "<31>", "e31"), (E + "<16,unsigned>", "e16u")), ((E + "<24,unsigned>", "e24u"), (E + "<12>", "e12")), (("cnl::wide_integer<100>", "w100"), ("cnl::wide_integer<100>", "w100")),
              ((E + "<100>", "e100"), (E + "<40>", "e40")), (("cnl::overflow_integer<" + E + "<20>,cnl::saturated_overflow_tag>", "sat<e20>"), ("cnl::overflow_integer<" + E + "<10>,cnl::saturated_overflow_tag>", "sat<e10>"))]
RULE = ("kernel = (rounding tag, dividend type, divisor type, entry point: rounding_integer operator/ or _impl::divide<Tag>) plus (tag, type pair) kernels checking every other operator against the built-in one. "
        "8-bit x 8-bit operand pairs are enumerated exhaustively (all sign quadrants, all ties); wider types get the boundary lattice squared, divisors 6/7/10/100, and seeded ties a = k*b + b/2 with both neighbours and both signs. "
        "Oracle: exact quotient and remainder on 256-bit integers, rounded by the mathematical definition of the mode. Domain: b != 0, operands representable in the common type, truncated and rounded quotient representable in decltype(a/b). "
        "Class-type representations (elastic_integer, wide_integer, overflow_integer<elastic_integer>) under every tag: same oracle, quotient type as deduced by CNL. "
        "distinct_nontrivial counts enumerated/lattice pairs that are exact ties, exact divisions, or have an operand within 3 of 0, a bound or a power of two.")


def kernels(tier, seed):
    rng = random.Random("C08-%d" % seed)
    ks = []
    pairs = [(l, r) for l in INTS for r in INTS]
    corep = [(l, l) for l in INTS] + [(INTS[0], INTS[1]), (INTS[1], INTS[0]), (INTS[4], INTS[5]), (INTS[5], INTS[4]), (INTS[0], INTS[6]), (INTS[6], INTS[0]), (INTS[2], INTS[4]), (INTS[7], INTS[6])]
    chosen = corep + [p for p in pairs if p not in corep]  # every pairing of dividend and divisor type (the divide-function entry point on a seeded third)
    seen = set()
    for (lc, ln), (rc, rn) in chosen:
        if (ln, rn) in seen: continue
        seen.add((ln, rn))
        for mc, mn in MODES:
            ks.append(("rounding_integer<%s,%s> / <%s>" % (ln, mn, rn), "c08::rdiv<c08::%s,%s,%s,c08::E_WRAPPER>" % (mc, lc, rc)))
            if tier == "thorough" or (len(ks) + seed) % 3 == 0:
                ks.append(("divide<%s>(%s,%s)" % (mn, ln, rn), "c08::rdiv<c08::%s,%s,%s,c08::E_DIVIDE_FN>" % (mc, lc, rc)))
        mc, mn = MODES[(len(seen) + seed) % 4]
        if tier == "thorough" or ((lc, ln), (rc, rn)) in corep or (len(seen) + seed) % 4 == 0:
            ks.append(("rounding_integer<%s,%s> other-ops <%s>" % (ln, mn, rn), "c08::rother<c08::%s,%s,%s>" % (mc, lc, rc)))
    for (lc, ln), (rc, rn) in CLASS_REPS:
        for mc, mn in MODES:
            ks.append(("rounding_integer<%s,%s> / <%s>" % (ln, mn, rn), "c08::rdiv_class<c08::%s,%s,%s>" % (mc, lc, rc)))
    return [(d, '%s("%s");' % (c, d)) for d, c in ks]


def run(tier, seed, only=None):
    res = core.Result("C08", tier, seed)
    ks = kernels(tier, seed)
    if only:
        ks = [k for k in kernels("thorough", seed) if k[0] == only["kernel"]]
    cfgs = ["g-san"] if tier == "quick" else ["g-san", "c-san", "g-rel"]
    if only:
        cfgs = [only["config"]]
    env = {"VERIF_SEED": str(seed), "VERIF_N": "20000" if tier == "quick" else "400000", "VERIF_LATTICE_STRIDE": "2" if tier == "quick" else "1"}
    jobs = []
    for cfg in cfgs:
        for i, sh in enumerate(core.shard(ks, 1 if only else (16 if tier == "quick" else 48))):
            jobs.append(core.Job("c08-%d" % i, core.tu("c08.h", sh), cfg, env=env, timeout=3600))
    core.build_and_run(jobs, "C08")
    for j in jobs:
        res.absorb(j)
        if j.died:
            res.inconclusive.append("binary %s[%s] died outside a guarded case (rc=%s)" % (j.name, j.config, j.rc))
    for c in ("tie_positive", "tie_negative"):
        if not only and res.classes.get(c, 0) < 100:
            res.inconclusive.append("too few %s observed" % c)
    res.extra["kernels_generated"] = len(ks)
    return res.finish(RULE, assumptions=["oracle: exact divmod on 256-bit integers + the four rounding definitions of the statement", "mixed signedness: only operand values representable in the common type (else C++ converts the operand)"])
