"""E-big: offline judge for harness/big.h ('B' lines) - exact python integers over hex limb patterns.

Used by C01 (scaled_integer over Karatsuba-sized wide_integer), C05 (elastic_integer with multi-limb storage), C10 (wide_integer)
and C11 (static_integer products / quotients beyond the 256-bit lock-step oracle)."""
from fractions import Fraction as Fr

from .. import core

OPBIT = {"+": 0, "-": 1, "*": 2, "/": 3, "%": 4, "<": 5, "=": 6, "q": 7}


def opmask(ops):
    m = 0
    for c in ops:
        m |= 1 << OPBIT[c]
    return m


def sval(u, bits, sg):
    return u - (1 << bits) if sg and (u >> (bits - 1)) & 1 else u


def tdiv(a, b):
    q = abs(a) // abs(b)
    return q if (a < 0) == (b < 0) else -q


def ndiv(a, b):
    """nearest, ties away from zero"""
    q = (2 * abs(a) + abs(b)) // (2 * abs(b))
    return q if (a < 0) == (b < 0) else -q


def stmt(desc, a, b, ops, kid, rm=0):
    return (desc, 'big::binop<%s, %s, %du, %d>("%s", %d);' % (a, b, opmask(ops), rm, desc, kid))


def judge(res, job, wrap=False, classify=None):
    """wrap: results are reduced to the result type's storage width (wide_integer); otherwise an exact result that does not fit the
    result type's digits is out of the property's domain.  classify(kd, op, a, b, exact, got) -> class name for a wrong value."""
    kd = {r["id"]: r for r in job.records if r.get("t") == "kd" and "bits1" in r and "limb1" in r}
    tall = {}
    for line in job.raw:
        p = line.split(" ")
        if len(p) != 11 or p[0] != "B":
            continue
        k = kd.get(int(p[1]))
        if not k:
            continue
        t = tall.setdefault(int(p[1]), {"judged": 0, "ood": 0, "nt": 0, "kinds": {}, "classes": {}, "samples": [], "viol": {}})
        op, ah, bh, kind, rh = p[2:7]
        rbits, rsg, rdig, rexp = int(p[7]), int(p[8]), int(p[9]), int(p[10])
        a = sval(int(ah, 16), k["bits1"], bool(k["signed1"]))
        b = sval(int(bh, 16), k["bits2"], bool(k["signed2"]))
        if abs(a) >> k["digits1"] or abs(b) >> k["digits2"]:
            # generator bug guard: operands are always built inside the value range
            raise core.Inconclusive("big: operand outside the type's digits in %s" % k["k"])
        e1, e2 = k["exp1"], k["exp2"]

        def viol(cls, exp):
            n, ws = t["viol"].get(cls, (0, []))
            if len(ws) < 4:
                ws.append({"in": "%s %s %s" % (ah, op, bh), "exp": exp, "obs": kind + " " + rh})
            t["viol"][cls] = (n + 1, ws)
        t["kinds"][kind] = t["kinds"].get(kind, 0) + 1
        if op in "<=":
            t["judged"] += 1
            va, vb = Fr(a) * Fr(2) ** e1, Fr(b) * Fr(2) ** e2
            want = va < vb if op == "<" else va == vb
            al_over = False
            if k.get("fixed") and e1 != e2:
                # fixed-width representations (wide_integer): does the exponent alignment of the coarser operand fit the rep? (the property
                # restricts only built-in reps to such pairs, so the others are judged; a wrong answer there is the recorded KF-C03-02)
                al = (a << (e1 - e2)) if e1 > e2 else (b << (e2 - e1))
                al_over = bool(abs(al) >> max(k["digits1"], k["digits2"]))
            if kind != "VALUE":
                viol("event:" + kind + ":" + op, "a value")
            elif rh != ("1" if want else "0"):
                viol("wrong:" + ("<" if op == "<" else "==") + (":alignment_exceeds_the_fixed_width_rep" if al_over else ""), "1" if want else "0")
            elif a < 0 or b < 0:
                t["nt"] += 1
            continue
        # exact result as an integer count of 2^rexp
        exact = None
        if op in "+-":
            x = Fr(a) * Fr(2) ** e1 + (1 if op == "+" else -1) * Fr(b) * Fr(2) ** e2
            x /= Fr(2) ** rexp
            exact = x.numerator if x.denominator == 1 else None
        elif op == "*":
            x = Fr(a * b) * Fr(2) ** (e1 + e2 - rexp)
            exact = x.numerator if x.denominator == 1 else None
        elif op == "/" and rexp == e1 - e2:
            # integer types (all exponents 0) and scaled_integer alike: the quotient of the representations, at exponent e1 - e2
            exact = ndiv(a, b) if k.get("rm") == 1 else tdiv(a, b)
        elif op == "q":
            # quotient(): the true quotient truncated toward zero at the result type's own resolution
            x = Fr(a) * Fr(2) ** e1 / (Fr(b) * Fr(2) ** e2) / Fr(2) ** rexp
            exact = x.numerator // x.denominator if x >= 0 else -((-x.numerator) // x.denominator)
        elif op == "%" and rexp == e1:
            # a % b has the dividend's exponent and is what makes (a/b)*b + a%b == a hold exactly
            exact = a - tdiv(a, b) * b
        if exact is None:
            t["ood"] += 1
            continue
        fits = (-(1 << rdig) if rsg else 0) <= exact < (1 << rdig)
        if not fits and not wrap:
            t["ood"] += 1
            continue
        t["judged"] += 1
        if kind != "VALUE":
            viol("event:" + kind + ":" + op, "a value")
            continue
        got = sval(int(rh, 16), rbits, bool(rsg))
        want = sval(exact % (1 << rbits), rbits, bool(rsg)) if wrap else exact
        if got != want:
            cls = classify(k, op, a, b, exact, got) if classify else None
            viol(cls or ("wrong:" + op), "%x" % (want % (1 << rbits)))
        else:
            lb = max(k["limb1"], k["limb2"])
            nt = a < 0 or b < 0 or (abs(a).bit_length() > lb and abs(b).bit_length() > lb)
            if nt:
                t["nt"] += 1
            if len(t["samples"]) < 2 and nt and abs(a).bit_length() > 2 * lb:
                t["samples"].append({"inputs": "%s %s %s" % (ah, op, bh), "expected": "%x" % (want % (1 << rbits)), "observed": rh})
    for kid, t in tall.items():
        res.add_tally(job, kd[kid]["k"], t["judged"], t["ood"], t["nt"], t["kinds"], t["classes"], t["samples"], t["viol"])
    res.kernels[job.config] = res.kernels.get(job.config, 0) + len(tall)
    return len(tall)


W8, W16, W32, W64 = "signed char", "short", "int", "std::int64_t"


def make_jobs(prefix, specs, tier, seed, cfgs, only=None, wrap=False, classify=None):
    """specs: [(desc, A, B, ops, rm)] -> jobs (one TU per config) whose .post judges the 'B' lines"""
    if only:
        specs = [s for s in specs if s[0] == only["kernel"]]
        cfgs = [only["config"]]
    if not specs:
        return []
    env = {"VERIF_SEED": str(seed), "VERIF_BIGPAIRS": "4000" if tier == "quick" else "60000"}
    jobs = []
    for cfg in cfgs:
        for i, sh in enumerate(core.shard([stmt(d, a, b, ops, k, rm) for k, (d, a, b, ops, rm) in enumerate(specs)], 1 if only else min(len(specs), 8))):
            j = core.Job("%s-big-%d" % (prefix, i), core.tu("big.h", sh, prologue="#include <cnl/static_integer.h>\n#include <cnl/static_number.h>"), cfg, env=env, timeout=7200)
            j.keep_raw = True
            j.post = lambda res, job: judge(res, job, wrap=wrap, classify=classify)
            jobs.append(j)
    return jobs


RULE = (" Big-number kernels (harness/big.h): operands far beyond the 256-bit oracle (Karatsuba-sized storage of >= 129 limbs, several-hundred-limb Knuth divisions) are written into the limb array, results read back from it, "
        "and every logged operation is recomputed offline with python integers; operand families: full-width random, extremal-limb alphabet (0,1,B-1,B-2,B/2,B/2+-1), 2^k and 2^k+-1, and dividends constructed as q*v+r with r in {0, v-1, random}.")
