"""C03 - comparisons agree with the mathematical order (scaled part: engine E-scaled; elastic part: E-elastic kernels; wide part: E-wide)."""
import random
from .. import core
from . import c01, c05


def elastic_cmp_kernels(tier, seed):
    rng = random.Random("C03e-%d" % seed)
    digits = [1, 7, 8, 9, 31, 32, 33, 63]
    ks = {}
    cmps = [("LT", "<"), ("LE", "<="), ("GT", ">"), ("GE", ">="), ("EQ", "=="), ("NE", "!=")]
    n = 120 if tier == "quick" else 1200
    # fixed core: unsigned vs negative, equal digits, extreme widths
    core_k = [(8, 1, 8, 0), (32, 3, 31, 2), (63, 4, 63, 4), (1, 0, 1, 1), (33, 2, 9, 1), (7, 0, 64, 3)]
    def add(op, sym, ld, ln, rd, rn):
        if ld > 63 and c05.NARROW[ln][2]: return
        lc, lt, _ = c05.NARROW[ln]; rc, rt, _ = c05.NARROW[rn]
        ks.setdefault("elastic<%d,%s> %s elastic<%d,%s>" % (ld, lt, sym, rd, rt), "c05::binary<c05::%s,%d,%s,%d,%s>" % (op, ld, lc, rd, rc))
    for ld, ln, rd, rn in core_k:
        for op, sym in cmps:
            add(op, sym, ld, ln, rd, rn)
    while len(ks) < n:
        op, sym = rng.choice(cmps)
        add(op, sym, rng.choice(digits), rng.randrange(6), rng.choice(digits), rng.randrange(6))
    ints = [("signed char", "i8"), ("unsigned char", "u8"), ("short", "i16"), ("int", "i32"), ("unsigned", "u32"), ("long", "i64"), ("unsigned long", "u64")]
    for i in range(40 if tier == "quick" else 300):
        d = rng.choice(digits); c, tn, sg = c05.NARROW[rng.randrange(6)]; ic, it = rng.choice(ints)
        ks.setdefault("elastic<%d,%s> cmpint %s" % (d, tn, it), "c05::cmpint<%d,%s,%s>" % (d, c, ic))
    exps = [-40, -16, -8, -3, -1, 0, 1, 5, 20]
    for i in range(60 if tier == "quick" else 500):
        op, sym = rng.choice(cmps)
        ld = rng.choice([1, 4, 7, 8, 15, 16, 31, 33, 40]); rd = rng.choice([1, 4, 7, 8, 15, 16, 31, 33, 40])
        le = rng.choice(exps); re_ = rng.choice(exps)
        ln = rng.choice([0, 1, 2, 3]); rn = rng.choice([0, 1, 2, 3])
        if max(ld + max(0, le - min(le, re_)), rd + max(0, re_ - min(le, re_))) + 1 > 120: continue
        ks.setdefault("escaled<%d,%d,%s> %s escaled<%d,%d,%s>" % (ld, le, c05.NARROW[ln][1], sym, rd, re_, c05.NARROW[rn][1]),
                      "c05::scaled<c05::%s,%d,%d,%s,%d,%d,%s>" % (op, ld, le, c05.NARROW[ln][0], rd, re_, c05.NARROW[rn][0]))
    return [(d, '%s("%s");' % (c, d)) for d, c in ks.items()]


def extra_jobs(tier, seed, env):
    jobs = []
    ks = elastic_cmp_kernels(tier, seed)
    for cfg in (["g-san"] if tier == "quick" else ["g-san", "c-san"]):
        for i, sh in enumerate(core.shard(ks, 12 if tier == "quick" else 48)):
            jobs.append(core.Job("c03e-%d" % i, core.tu("c05.h", sh), cfg, env=env, timeout=3600))
    try:
        from . import c10
        jobs += c10.compare_jobs(tier, seed, env)
        jobs += c10.cross_jobs(tier, seed, env)
    except ImportError:
        pass
    return jobs


def run(tier, seed, only=None):
    if only and not only["kernel"].startswith("s<") and not only["kernel"][0].isdigit() and not only["kernel"].startswith(("i", "u", "big ")):
        # elastic / wide kernel replay
        res = core.Result("C03", tier, seed)
        ks = [k for k in elastic_cmp_kernels(tier, only.get("seed", seed)) if k[0] == only["kernel"]]
        jobs = [core.Job("c03e-r", core.tu("c05.h", ks), only["config"], env={"VERIF_SEED": str(seed)})]
        core.build_and_run(jobs, "C03")
        for j in jobs:
            res.absorb(j)
    else:
        res = c01.run_prop("C03", tier, seed, only, extra_jobs=extra_jobs)
    return res.finish(c01.RULES["C03"] + c01.COMMON_RULE + c01.big.RULE + " Every comparison case also checks mutual consistency of the six operators (exactly one of <,==,> holds; <=, >=, != derived) independently of the oracle; "
                      "comparison with a built-in integer must equal comparison with that integer wrapped, and the by-value order.", assumptions=[
        "exact comparison of rep*radix^exponent on 256-bit integers", "scaled_integer over built-in reps of different signedness: expected answer is the built-in comparison of the exponent-aligned reps (statement's last sentence)",
        "built-in reps: exponent alignment of the coarser operand must fit its promoted rep (else out of domain)"])
