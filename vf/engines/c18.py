"""C18 - bit and digit-counting utilities (engine E-bits)."""
from .. import core

TYPES_U = [("unsigned char", "u8"), ("unsigned short", "u16"), ("unsigned", "u32"), ("unsigned long", "u64"),
           ("unsigned long long", "ull"), ("vf::u128", "u128")]
TYPES_S = [("signed char", "i8"), ("short", "i16"), ("int", "i32"), ("long", "i64"), ("long long", "ll"), ("vf::i128", "i128")]

RULE = ("kernel = (function, integer type); 8/16-bit types are enumerated exhaustively, wider types get the boundary lattice "
        "(0,+-1..3, limits+-3, +-2^k, 2^k+-1, alternating patterns, narrower-type bounds) plus VERIF_SEED-dependent log-uniform random values "
        "and, for 32 bits, one value from every 4096-block; rotations use every count 0..2w+1 and huge counts. "
        "distinct_nontrivial counts only enumerated/lattice inputs (distinct by construction) that are within 3 of 0, a type bound or a power of two, "
        "or whose expected result is 0, w-1 or w; random inputs are counted in evaluations only. Per kernel the maximum over configurations is taken.")


def run(tier, seed, only=None):
    res = core.Result("C18", tier, seed)
    stmts = []
    for ct, tn in TYPES_U:
        stmts.append(("unsigned_suite<%s>" % tn, 'c18::unsigned_suite<%s>("%s");' % (ct, tn)))
    for ct, tn in TYPES_S:
        stmts.append(("signed_suite<%s>" % tn, 'c18::signed_suite<%s>("%s");' % (ct, tn)))
    # suites are not kernels themselves; select at suite level (desc check is bypassed)
    def tu(ss):
        body = "\n".join("    " + s for _, s in ss)
        return '#include "harness/c18.h"\nint main(){ vf::install();\n%s\n vf::finish(); }\n' % body
    configs = ["g-san", "c-san", "g-noint"]
    env = {"VERIF_SEED": str(seed), "VERIF_N": "200000" if tier == "quick" else "5000000"}
    jobs = []
    for cfg in configs:
        for i, (d, s) in enumerate(stmts):
            jobs.append(core.Job("c18-%d" % i, tu([(d, s)]), cfg, env=env))
    if tier == "thorough":
        # exhaustive 32-bit sweep in the as-shipped configuration and under UBSan
        e2 = dict(env, VERIF_EXH32="1")
        for cfg in ("g-rel", "g-ub"):
            for i, (d, s) in enumerate(stmts):
                if "u32" in d or "i32" in d:
                    jobs.append(core.Job("c18x-%d" % i, tu([(d, s)]), cfg, env=e2, timeout=7200))
    core.build_and_run(jobs, "C18")
    for j in jobs:
        res.absorb(j)
        if j.died:
            res.inconclusive.append("binary %s[%s] died outside a guarded case (rc=%s)" % (j.name, j.config, j.rc))
    return res.finish(RULE, assumptions=[
        "reference = naive bit loops written in the harness (no <bit>, no CNL)",
        "ceil2(x) for x > 2^(w-1) is out of domain (not representable); ceil2(0)==0 is the documented deviation",
        "compilers' unsigned shifts/compare on the reference side are trusted"])
