"""Kernel universe for engine E-scaled (C01, C02, C03): candidates are generated here, probed once against the pinned tree
(python3 -m vf.engines.scaled_common probe) and frozen in matrix/scaled.json; runs only draw from the frozen universe."""
import json
import os
import random
import re
import sys

from .. import core

BUILTIN = [("signed char", "i8", 7), ("unsigned char", "u8", 8), ("short", "i16", 15), ("unsigned short", "u16", 16), ("int", "i32", 31), ("unsigned", "u32", 32),
           ("long", "i64", 63), ("unsigned long", "u64", 64), ("vf::i128", "i128", 127), ("vf::u128", "u128", 128)]
ELASTIC = [("cnl::elastic_integer<7>", "e7", 7), ("cnl::elastic_integer<15,unsigned>", "e15u", 15), ("cnl::elastic_integer<24>", "e24", 24), ("cnl::elastic_integer<31>", "e31", 31),
           ("cnl::elastic_integer<20,signed char>", "e20c", 20), ("cnl::elastic_integer<40>", "e40", 40), ("cnl::elastic_integer<8,unsigned char>", "e8uc", 8), ("cnl::elastic_integer<1>", "e1", 1),
           ("cnl::elastic_integer<4,signed char>", "e4c", 4), ("cnl::elastic_integer<12,short>", "e12s", 12), ("cnl::elastic_integer<5,unsigned char>", "e5uc", 5), ("cnl::elastic_integer<16,unsigned>", "e16u", 16),
           ("cnl::elastic_integer<32,unsigned>", "e32u", 32)]
OPS = {"C01": [("ADD", "+"), ("SUB", "-"), ("MUL", "*"), ("NEG", "neg")],
       "C02": [("DIV", "/"), ("MOD", "%"), ("QUOT", "quotient")],
       "C03": [("LT", "<"), ("LE", "<="), ("GT", ">"), ("GE", ">="), ("EQ", "=="), ("NE", "!=")]}
PATH = os.path.join(core.VERIF, "matrix", "scaled.json")


def candidates():
    rng = random.Random(20261004)
    out = {}
    def add(prop, op, sym, l, le, r, re_, radix, plain=0):
        ld = "s<%s,%d>" % (l[1], le) if plain != 2 else l[1]
        rd = "s<%s,%d>" % (r[1], re_) if plain != 1 else r[1]
        d = "%s %s %s r%d" % (ld, sym, rd, radix) if op != "NEG" else "neg %s r%d" % (ld, radix)
        out.setdefault(d, (prop, 'c01::arith<c01::%s,%s,%d,%s,%d,%d,%d>("%s");' % (op, l[0], le, r[0], re_, radix, plain, d)))
    bases2 = [-70, -33, -17, -8, -1, 0, 1, 16, 32, 70]
    for prop, ops in OPS.items():
        target = 1800 if prop != "C02" else 1400
        n = 0
        guard = 0
        while n < target and guard < 100000:
            guard += 1
            op, sym = rng.choice(ops)
            family = rng.random()
            if family < 0.7:
                l = rng.choice(BUILTIN[:8] if rng.random() < 0.85 else BUILTIN); r = rng.choice(BUILTIN[:8] if rng.random() < 0.85 else BUILTIN)
            else:
                l = rng.choice(ELASTIC); r = rng.choice(ELASTIC)
            radix = 2 if rng.random() < 0.75 else 10
            if op == "QUOT":
                radix = 2
            if radix == 2:
                le = rng.choice(bases2)
                diff = rng.choice([0, 0, 1, -1, 2, -2, 3, -3, 7, -7, 8, -8, 15, -15, 16, -16, 24, -24, 31, -31, 33, -40, 47, -62, 63])
                re_ = max(-70, min(70, le + diff))
            else:
                le = rng.choice([-8, -6, -3, -2, -1, 0, 1, 2, 4]); re_ = max(-9, min(6, le + rng.choice([-5, -4, -3, -2, -1, 0, 0, 1, 2, 3, 4, 5])))
                if rng.random() < 0.35:
                    # large decimal exponent differences (6..9 digits): 10^k still fits int, so 8/16-bit reps have in-domain values
                    l = rng.choice(BUILTIN[:4]); r = rng.choice(BUILTIN[:6])
                    le = rng.choice([-9, -8, -7, -6, 0]); re_ = le + rng.choice([6, 7, 8, 9])
                    if rng.random() < 0.5:
                        l, r, le, re_ = r, l, re_, le
            plain = 0
            if radix == 2 and rng.random() < 0.12 and op != "NEG" and op != "QUOT":
                plain = rng.choice([1, 2])
                if plain == 1: re_ = 0
                else: le = 0
                if (plain == 1 and r not in BUILTIN) or (plain == 2 and l not in BUILTIN): continue
            if op == "NEG":
                r, re_ = l, le
            before = len(out)
            add(prop, op, sym, l, le, r, re_, radix, plain)
            n += len(out) - before
    # overflow_integer representations (native and checked tags), mixed widths and signedness, for every operator of every property
    OV = []
    for tag, tn in (("cnl::native_overflow_tag", "N"), ("cnl::saturated_overflow_tag", "Sat")):
        for bc, bn in (("unsigned", "u32"), ("long", "i64"), ("int", "i32"), ("unsigned short", "u16"), ("signed char", "i8")):
            OV.append(("cnl::overflow_integer<%s,%s>" % (bc, tag), "%s<%s>" % (tn, bn)))
    for prop, ops in OPS.items():
        for op, sym in ops:
            for i in range(14):
                l = OV[(i * 3 + len(sym)) % len(OV)]; r = OV[(i * 7 + 1) % len(OV)]
                if l[1][0] != r[1][0]:
                    r = OV[(OV.index(r) + 5) % len(OV)]   # same tag on both sides
                le = [-3, 0, -8, 1][i % 4]; re_ = [-1, 0, -8, -2][(i // 2) % 4]
                if op == "NEG":
                    r, re_ = l, le
                add(prop, op, sym, l, le, r, re_, 2, 0)
    # division family: every pairing of the overflow_integer base types (the quotient's type follows the built-in rules for the pair)
    for op, sym in OPS["C02"]:
        for li in range(5):
            for ri in range(5):
                for t in (0, 5):
                    le, re_ = [(-3, -1), (0, 0), (-8, -2)][(li + ri + t) % 3]
                    add("C02", op, sym, OV[t + li], le, OV[t + ri], re_, 2, 0)
    return out


def load():
    with open(PATH) as f:
        return json.load(f)


def select(prop, tier, seed):
    uni = [k for k in load()["kernels"] if k["prop"] == prop]
    rng = random.Random(seed * 1000003 + hash(prop) % 1000)
    rng = random.Random("%s-%d" % (prop, seed))
    ncore = 120
    n = {"quick": 360, "thorough": len(uni)}[tier]
    chosen = uni[:ncore] + rng.sample(uni[ncore:], max(0, min(len(uni) - ncore, n - ncore)))
    # always: unary minus on every unsigned rep whose digits fill its storage (the signed result is wider than the operand's rep: the
    # negation must happen after the widening), one exponent/radix each
    seen = set()
    for k in uni:
        d = k["desc"].split()
        if re.search(r"s<(N|Sat)<", k["desc"]) and sum(map(ord, k["desc"])) % 2 == seed % 2 and k not in chosen:
            chosen.append(k)   # overflow_integer reps: half of them per seed
        if d[0] == "neg" and re.match(r"s<(e16u|e32u|u8|u16|u32|u64),", d[1]) and (d[1].split(",")[0], d[2]) not in seen and k not in chosen:
            seen.add((d[1].split(",")[0], d[2]))
            chosen.append(k)
    return [(k["desc"], k["stmt"]) for k in chosen]


if __name__ == "__main__":
    from .. import probe
    c = candidates()
    stmts = [(d, s) for d, (p, s) in c.items()]
    print("probing %d candidates" % len(stmts), file=sys.stderr)
    ok, bad = probe.probe("c01.h", stmts)
    okset = set(d for d, s in ok)
    kernels = [{"prop": c[d][0], "desc": d, "stmt": c[d][1]} for d in c if d in okset]
    rng = random.Random(7)
    rng.shuffle(kernels)
    with open(PATH, "w") as f:
        json.dump({"probed_against_tree": core.tree_hash()[:16], "instantiable": len(kernels), "not_instantiable": sorted(d for d, s in bad), "kernels": kernels}, f, indent=0)
    print("instantiable %d, not instantiable %d" % (len(kernels), len(bad)))
