"""C09 - narrowing conversions under a rounding mode (engine E-round)."""
import json
import os
import random
import re
import sys
from fractions import Fraction as Fr

from .. import core
from .c04 import hexl

INTS = [("signed char", "i8"), ("unsigned char", "u8"), ("short", "i16"), ("unsigned short", "u16"), ("int", "i32"), ("unsigned", "u32"), ("long", "i64"), ("unsigned long", "u64")]
FLOATS = [("float", "f32"), ("double", "f64"), ("long double", "f80")]
MODES = [("Nat", "native"), ("Nea", "nearest"), ("Tie", "tie_to_pos_inf"), ("Flo", "neg_inf")]
PATH = os.path.join(core.VERIF, "matrix", "round.json")
RULE = ("kernel = (rounding tag, source rep/exponent or floating type, destination rep/exponent, route: cnl::convert<Tag,Dest> | static_cast/constructor of scaled_integer<rounding_integer<Rep,Tag>>) from the frozen universe "
        "matrix/round.json (fixed core + VERIF_SEED sample). scaled sources: all values for <=16-bit reps, otherwise boundary lattice, generated ties k*2^s + 2^(s-1) with both neighbours and signs, source limits, seeded random; "
        "floating sources: every tie k+1/2 (k in the destination boundary lattice) and its two float neighbours on each side, quarter offsets, values where adding 0.5 is not representable (2^(mant+-3)), and seeded random. "
        "Oracle: the exact source value (float decomposed exactly / rep*2^e) rounded by the mathematical definition of the mode at the destination resolution; scaled sources online on 256-bit integers, floating sources offline with python Fractions. "
        "Domain: rounded result representable in the destination. distinct_nontrivial counts lattice/enumerated sources that are ties, lose digits, or sit on a limit, and all directed float cases.")


def candidates():
    rng = random.Random(909)
    out = {}
    while len([1 for v in out.values() if v[0] == "conv"]) < 900:
        s = rng.choice(INTS); d = rng.choice(INTS); m = rng.choice(MODES)
        se = rng.choice([-40, -30, -16, -12, -8, -4, -2, -1, 0, 1, 2, 4, 9, 20])
        de = se + rng.choice([1, 1, 2, 3, 4, 7, 8, 9, 12, 15, 16, 20, 31, 0, -1, -3, -8])
        if not -70 <= de <= 70: continue
        route = rng.choice([0, 1])
        d_ = "%s s<%s,%d> -> s<%s,%d> %s" % (m[1], s[1], se, d[1], de, "convert" if route == 0 else "wrapped")
        out.setdefault(d_, ("conv", "c08::rconv<c08::%s,%s,%d,%s,%d,%d>" % (m[0], s[0], se, d[0], de, route)))
    ELS = [("cnl::elastic_integer<20>", "e20"), ("cnl::elastic_integer<33>", "e33"), ("cnl::elastic_integer<40>", "e40"), ("cnl::elastic_integer<62>", "e62"), ("cnl::elastic_integer<40,unsigned>", "e40u"), ("cnl::elastic_integer<12,short>", "e12s"),
           ("cnl::elastic_integer<70>", "e70"), ("cnl::elastic_integer<100>", "e100"), ("cnl::elastic_integer<70,unsigned>", "e70u")]
    for sc, sn in ELS:
        for shift in [1, 7, 15, 16, 30, 31, 32, 33, 47, 62, 63, 64]:
            for m in MODES:
                dc, dn = rng.choice(ELS)
                se = rng.choice([-40, -31, -20, -8, 0])
                d_ = "%s s<%s,%d> -> s<%s,%d> convert" % (m[1], sn, se, dn, se + shift)
                out.setdefault(d_, ("conv", "c08::rconv<c08::%s,%s,%d,%s,%d,0>" % (m[0], sc, se, dc, se + shift)))
    # the convert<> entry point on scaled_integer<rounding_integer<Rep,Tag>> operands (route 2)
    for s, d, se, de in [(INTS[2], INTS[0], -4, -1), (INTS[4], INTS[4], -8, -3), (INTS[6], INTS[4], -20, -2), (INTS[0], INTS[0], -3, 0), (INTS[5], INTS[3], -8, -1), (INTS[4], INTS[6], 0, 5), (INTS[3], INTS[3], -6, -2)]:
        for m in MODES:
            d_ = "%s s<%s,%d> -> s<%s,%d> convert-wrapped" % (m[1], s[1], se, d[1], de)
            out.setdefault(d_, ("conv", "c08::rconv<c08::%s,%s,%d,%s,%d,2>" % (m[0], s[0], se, d[0], de)))
    # decimal scaling: scaled -> coarser scaled (both routes) and floating -> scaled
    for s, d, se, de in [(INTS[4], INTS[4], -1, 0), (INTS[4], INTS[2], -3, -1), (INTS[6], INTS[4], -2, 1), (INTS[2], INTS[2], -4, -2), (INTS[5], INTS[5], -2, 0), (INTS[6], INTS[6], -9, -3),
                         (INTS[0], INTS[4], -2, -1), (INTS[7], INTS[5], -4, 2), (INTS[3], INTS[1], -3, -1), (INTS[4], INTS[6], 0, 3)]:
        for m in MODES:
            for route in (0, 1):
                d_ = "%s s<%s,%d,r10> -> s<%s,%d,r10> %s" % (m[1], s[1], se, d[1], de, "convert" if route == 0 else "wrapped")
                out.setdefault(d_, ("conv", "c08::rconv<c08::%s,%s,%d,%s,%d,%d,10>" % (m[0], s[0], se, d[0], de, route)))
    for f in FLOATS:
        for d, de in [(INTS[4], -1), (INTS[4], -2), (INTS[6], -6), (INTS[2], -1), (INTS[5], -3), (INTS[4], 1), (INTS[6], 2)]:
            for m in MODES:
                d_ = "%s %s -> s<%s,%d,r10> convert" % (m[1], f[1], d[1], de)
                out.setdefault(d_, ("float", "c08::rfloat<c08::%s,%s,%s,%d,0,10>" % (m[0], f[0], d[0], de)))
    for f in FLOATS[1:]:
        for d in INTS[4:]:
            for m in MODES:
                for de in [-130, -127, -100, -64, 64, 100, 130]:
                    d_ = "%s %s -> s<%s,%d> convert" % (m[1], f[1], d[1], de)
                    out.setdefault(d_, ("float", "c08::rfloat<c08::%s,%s,%s,%d,0>" % (m[0], f[0], d[0], de)))
    while len([1 for v in out.values() if v[0] == "float"]) < 1100:
        f = rng.choice(FLOATS); d = rng.choice(INTS); m = rng.choice(MODES)
        de = rng.choice([0, 0, 0, -1, -4, -8, -16, 1, 3, 8])
        route = rng.choice([0, 1])
        d_ = "%s %s -> %s %s" % (m[1], f[1], ("s<%s,%d>" % (d[1], de)) if de else d[1], "convert" if route == 0 else "ctor")
        out.setdefault(d_, ("float", "c08::rfloat<c08::%s,%s,%s,%d,%d>" % (m[0], f[0], d[0], de, route)))
    return out


def load():
    with open(PATH) as f:
        return json.load(f)


def critical(k):
    """kernels that every quick run contains: parameters sitting on a representation boundary of the operation itself"""
    d = k["desc"].split()
    if k["desc"].endswith("convert-wrapped"):
        return sum(map(ord, k["desc"])) % 2 == 0
    if ",r10>" in k["desc"]:
        # decimal scaling: one kernel in three (fixed selection), all of them in thorough
        return sum(map(ord, k["desc"])) % 3 == 0
    if k["kind"] == "conv":
        # elastic source wider than a shift that equals the digit count of a built-in storage type (7/15/31/63): the divisor 2^shift
        # is the first value that does not fit that type
        m = re.match(r"s<e(\d+)([us]?),(-?\d+)>", d[1])
        m2 = re.match(r"s<[^,]+,(-?\d+)>", d[3])
        if m and m2:
            shift = int(m2.group(1)) - int(m.group(3))
            return int(m.group(1)) > shift and (shift in (31, 63) or (shift in (7, 15) and m.group(2) == "s"))
        return False
    # floating source, destination exponent at the edge of float's exponent range (2^-E or 2^(E-1) not representable in float)
    m = re.match(r"s<i64,(-?\d+)>", d[3])
    return bool(m) and abs(int(m.group(1))) >= 126 and d[1] in ("f64", "f80")


def select(tier, seed):
    uni = load()["kernels"]
    rng = random.Random("C09-%d" % seed)
    out = []
    for kind, ncore, nq in (("conv", 60, 220), ("float", 40, 120)):
        u = [k for k in uni if k["kind"] == kind]
        n = nq if tier == "quick" else len(u)
        chosen = u[:ncore] + [k for k in u[ncore:] if critical(k)]
        # stratify: one kernel of every (mode, source type / source width, destination width class, integer-vs-scaled destination, route) group first
        groups = {}
        for k in u[ncore:]:
            d = k["desc"].split()
            key = (d[0], d[1][:3] if kind == "float" else d[1][2:5], "64" in d[3], "s<" in d[3], d[-1])
            groups.setdefault(key, []).append(k)
        for key in sorted(groups):
            c = rng.choice(groups[key])
            if c not in chosen:
                chosen.append(c)
        rest = [k for k in u[ncore:] if k not in chosen]
        chosen += rng.sample(rest, max(0, min(len(rest), n - len(chosen))))
        out += chosen
    return out


def round_fr(q, mode):
    fl = q.numerator // q.denominator  # floor
    if q.denominator == 1:
        return fl
    frac = q - fl  # in (0,1)
    if mode == 0:
        return fl if q > 0 else fl + 1
    if mode == 1:
        if frac > Fr(1, 2): return fl + 1
        if frac < Fr(1, 2): return fl
        return fl + 1 if q > 0 else fl
    if mode == 2:
        return fl + 1 if frac >= Fr(1, 2) else fl
    return fl


def exact_in(q, mant):
    """is the rational q exactly representable with a mant-bit significand (exponent range not considered)?"""
    if q == 0:
        return True
    d = q.denominator
    if d & (d - 1):
        return False
    n = abs(q.numerator)
    return n.bit_length() - ((n & -n).bit_length() - 1) <= mant


def judge_floats(res, job):
    kd = {r["id"]: r for r in job.records if r.get("t") == "kd"}
    tall = {}
    for line in job.raw:
        p = line.split()
        if len(p) != 4 or p[0] != "C":
            continue
        k = kd.get(int(p[1]))
        if not k:
            continue
        t = tall.setdefault(int(p[1]), {"judged": 0, "ood": 0, "nt": 0, "kinds": {}, "classes": {}, "samples": [], "viol": {}})
        v = hexl(p[2])
        if v is None:
            t["ood"] += 1
            continue
        q = v / Fr(k.get("radix", 2)) ** k["exp"]
        # sources so small that the floating scale multiplication itself underflows are outside the domain (assumption)
        tiny = Fr(2) ** {24: -126, 53: -1022, 64: -16382}[k["mant"]]
        if v != 0 and (abs(v) < tiny or abs(q) < tiny):
            t["ood"] += 1
            continue
        want = round_fr(q, k["mode"])
        if want < int(k["lo"]) or want > int(k["hi"]):
            t["ood"] += 1
            continue
        if k.get("radix", 2) != 2:
            # decimal (non-binary) scaling of a binary floating value: from * Radix^-E is itself rounded by the floating multiplication
            # (double rounding, surveyed as with C04); judged only where that product is exact in the source format
            if not exact_in(q, k["mant"]):
                t["classes"]["scaled_source_inexact_in_source_format(not judged)"] = t["classes"].get("scaled_source_inexact_in_source_format(not judged)", 0) + 1
                t["ood"] += 1
                continue
        t["judged"] += 1
        t["nt"] += 1
        fl = q.numerator // q.denominator
        tie = q.denominator != 1 and q - fl == Fr(1, 2)
        if tie:
            c = "float_tie_" + ("neg" if q < 0 else "pos")
            t["classes"][c] = t["classes"].get(c, 0) + 1
        if p[3] != str(want):
            cls = "wrong_value" if p[3].lstrip("-").isdigit() else "float:" + p[3]
            n, ws = t["viol"].get(cls, (0, []))
            if len(ws) < 4:
                ws.append({"in": p[2] + " (= %s dest units)" % (str(float(q))), "exp": str(want), "obs": p[3]})
            t["viol"][cls] = (n + 1, ws)
            t["kinds"][p[3] if not p[3].lstrip("-").isdigit() else "VALUE"] = t["kinds"].get(p[3] if not p[3].lstrip("-").isdigit() else "VALUE", 0) + 1
        else:
            t["kinds"]["VALUE"] = t["kinds"].get("VALUE", 0) + 1
            if tie and len(t["samples"]) < 2:
                t["samples"].append({"inputs": p[2], "expected": str(want), "observed": p[3]})
    for kid, t in tall.items():
        res.add_tally(job, kd[kid]["k"], t["judged"], t["ood"], t["nt"], t["kinds"], t["classes"], t["samples"], t["viol"])
    res.kernels[job.config] = res.kernels.get(job.config, 0) + len(tall)


def run(tier, seed, only=None):
    res = core.Result("C09", tier, seed)
    ks = select(tier, seed)
    if only:
        ks = [k for k in load()["kernels"] if k["desc"] == only["kernel"]]
    cfgs = ["g-san"] if tier == "quick" else ["g-san", "c-san"]
    if only:
        cfgs = [only["config"]]
    env = {"VERIF_SEED": str(seed), "VERIF_NRAND": "600" if tier == "quick" else "5000", "VERIF_NFLOAT": "1500" if tier == "quick" else "20000"}
    online = [(k["desc"], k["stmt"]) for k in ks if k["kind"] == "conv"]
    fl = [k for k in ks if k["kind"] == "float"]
    flstm = [(k["desc"], k["stmt"].replace('");', '", %d);' % i)) for i, k in enumerate(fl)]
    jobs = []
    for cfg in cfgs:
        if online:
            for i, sh in enumerate(core.shard(online, 1 if only else (20 if tier == "quick" else 64))):
                jobs.append(core.Job("c09-%d" % i, core.tu("c08.h", sh), cfg, env=env, timeout=3600))
        if flstm:
            for i, sh in enumerate(core.shard(flstm, 1 if only else (12 if tier == "quick" else 32))):
                j = core.Job("c09f-%d" % i, core.tu("c08.h", sh), cfg, env=env, timeout=3600)
                j.keep_raw = True
                jobs.append(j)
    core.build_and_run(jobs, "C09")
    for j in jobs:
        res.absorb(j)
        if j.keep_raw:
            judge_floats(res, j)
        if j.died:
            res.inconclusive.append("binary %s[%s] died outside a guarded case (rc=%s)" % (j.name, j.config, j.rc))
    res.extra["kernels_generated"] = len(ks)
    return res.finish(RULE, assumptions=["exact oracle: 256-bit integers online, python Fractions offline; floats decomposed exactly (printed with %La)", "domain: rounded result representable in the destination rep; NaN/inf excluded; floating sources whose magnitude (before or after scaling by 2^-E) is subnormal are excluded (IEEE underflow in the scale multiplication)"])


if __name__ == "__main__":
    from .. import probe
    c = candidates()
    stmts = [(d, '%s("%s"%s);' % (s, d, ", 0" if kind == "float" else "")) for d, (kind, s) in c.items()]
    print("probing %d candidates" % len(stmts), file=sys.stderr)
    ok, bad = probe.probe("c08.h", stmts)
    okset = set(d for d, s in ok)
    kernels = [{"kind": c[d][0], "desc": d, "stmt": '%s("%s");' % (c[d][1], d)} for d in c if d in okset]
    random.Random(7).shuffle(kernels)
    with open(PATH, "w") as f:
        json.dump({"probed_against_tree": core.tree_hash()[:16], "instantiable": len(kernels), "not_instantiable": sorted(d for d, s in bad), "kernels": kernels}, f, indent=0)
    print("instantiable %d, not instantiable %d" % (len(kernels), len(bad)))
