"""C02 - division, remainder, quotient() (engine E-scaled)."""
from . import c01


def run(tier, seed, only=None):
    res = c01.run_prop("C02", tier, seed, only)
    return res.finish(c01.RULES["C02"] + c01.COMMON_RULE + c01.big.RULE + " For / the result rep must equal trunc(ra/rb) at exponent ea-eb, for % trem(ra,rb) (sign of the dividend) at exponent ea - which "
                      "implies the identity (a/b)*b + a%b == a and |rep(a%b)| < |rep(b)|; quotient() must equal the true quotient truncated toward zero at the result type's own exponent.", assumptions=[
        "exact oracle on 256-bit integers", "domain: divisor != 0; built-in reps: operands representable in the common type and not (lowest, -1)", "quotient(): radix 2 only (decimal does not instantiate)"])
