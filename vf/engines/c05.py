"""C05 - elastic_integer never overflows and stays within its declared digits (engine E-elastic)."""
import random
from .. import core
from . import big


def _be(d1, d2, n, tag, ops):
    a, b = "cnl::elastic_integer<%d,%s>" % (d1, n), "cnl::elastic_integer<%d,%s>" % (d2, n)
    return ("big elastic<%d,%s> elastic<%d,%s> [%s]" % (d1, tag, d2, tag, ops), a, b, ops, 0)


# elastic_integer whose (widened) result storage is Karatsuba-sized or has an odd limb count, and long Knuth divisions
BIG = [_be(600, 600, "cnl::wide_integer<7,signed char>", "w8", "+-*/%<"), _be(2100, 2100, "cnl::wide_integer<31,int>", "w32", "+-*<"), _be(900, 300, "cnl::wide_integer<31,int>", "w32", "*/%"), _be(640, 420, "cnl::wide_integer<15,short>", "w16", "*/%<"),
       _be(4200, 4200, "cnl::wide_integer<63,std::int64_t>", "w64", "*"), _be(520, 520, "cnl::wide_integer<8,unsigned char>", "wu8", "+-*/%<")]

NARROW = [("signed char", "i8", 1), ("unsigned char", "u8", 0), ("int", "i32", 1), ("unsigned", "u32", 0), ("std::int64_t", "i64", 1), ("short", "i16", 1)]
DIGITS = [1, 2, 7, 8, 9, 15, 16, 17, 31, 32, 33, 62, 63]
BIN = [("ADD", "+"), ("SUB", "-"), ("MUL", "*"), ("DIV", "/"), ("MOD", "%"), ("LT", "<"), ("LE", "<="), ("GT", ">"), ("GE", ">="), ("EQ", "=="), ("NE", "!=")]

RULE = ("kernel = (operator, LhsDigits, LhsNarrowest, RhsDigits, RhsNarrowest) on elastic_integer, (op, digits, narrowest, shift) for unary -, << constant, >> constant, "
        "comparison against a built-in integer vs. the same value wrapped, and elastic_scaled_integer kernels with exponent pairs. Operands cover the declared range "
        "[-(2^D-1), 2^D-1] exhaustively when LhsDigits+RhsDigits <= 16, otherwise a boundary lattice of the range (0,+-1..3, +-(2^D-1-d), +-2^k+-1, half range) squared plus seeded random values. "
        "The result must equal the exact 256-bit result, lie within +-(2^Dr-1) for the result type's own digits Dr, and numeric_limits of the result type must equal that range. "
        "distinct_nontrivial counts enumerated/lattice pairs with an operand 0, equal/opposite operands, or an operand in the top half of its declared range.")


def kernels(tier, seed):
    rng = random.Random(seed * 7919 + 5)
    n = 500 if tier == "quick" else 4000
    ks = {}
    def add(d, c):
        ks.setdefault(d, c)
    # fixed core: every operator on a few digit pairs incl. the known-defect witnesses
    core_pairs = [(8, 0, 16, 0), (16, 0, 8, 0), (31, 2, 40, 2), (7, 0, 7, 1), (8, 1, 8, 0), (15, 2, 33, 4), (63, 4, 63, 4), (1, 0, 1, 1), (32, 3, 31, 2), (5, 0, 6, 0)]
    def binary(op, sym, ld, ln, rd, rn):
        if op in ("ADD", "SUB") and max(ld, rd) + 1 > 126: return
        if op == "MUL" and ld + rd > 125: return
        lc, lt, _ = NARROW[ln]; rc, rt, _ = NARROW[rn]
        add("elastic<%d,%s> %s elastic<%d,%s>" % (ld, lt, sym, rd, rt), "c05::binary<c05::%s,%d,%s,%d,%s>" % (op, ld, lc, rd, rc))
    for ld, ln, rd, rn in core_pairs:
        for op, sym in BIN:
            binary(op, sym, ld, ln, rd, rn)
    digits = DIGITS + ([3, 4, 5, 6, 24, 40, 48, 56] if tier == "thorough" else [])
    while len(ks) < n:
        op, sym = rng.choice(BIN)
        binary(op, sym, rng.choice(digits), rng.randrange(len(NARROW)), rng.choice(digits), rng.randrange(len(NARROW)))
    # unary ops
    m = 90 if tier == "quick" else 600
    cnt = 0
    # fixed witness of the >> digit rule finding
    add("elastic<33,i32> >>15", "c05::unary<c05::SHR,33,int,15>")
    # unary minus systematically: every digit count (incl. the full-rep counts 8/16/32/64) x every narrowest type
    for d in sorted(set(digits + [64])):
        for c, tn, sg in NARROW:
            add("elastic<%d,%s> neg" % (d, tn), "c05::unary<c05::NEG,%d,%s,0>" % (d, c))
    while cnt < m:
        d = rng.choice(digits + [64, 100, 126]); ni = rng.randrange(len(NARROW)); c, tn, sg = NARROW[ni]
        op = rng.choice(["NEG", "SHL", "SHR"])
        s = rng.choice([0, 1, 2, 3, 7, 8, 15, 16, 31, 32, 40, 62])
        if op == "SHL" and d + s > 126: continue
        if op == "SHR" and s >= d: continue
        if op == "NEG": s = 0
        if d > 126: continue
        add("elastic<%d,%s> %s%s" % (d, tn, {"NEG": "neg", "SHL": "<<", "SHR": ">>"}[op], "" if op == "NEG" else str(s)), "c05::unary<c05::%s,%d,%s,%d>" % (op, d, c, s))
        cnt += 1
    ints = [("signed char", "i8"), ("unsigned char", "u8"), ("short", "i16"), ("int", "i32"), ("unsigned", "u32"), ("long", "i64"), ("unsigned long", "u64")]
    for i in range(30 if tier == "quick" else 200):
        d = rng.choice(digits); c, tn, sg = NARROW[rng.randrange(len(NARROW))]; ic, it = rng.choice(ints)
        add("elastic<%d,%s> cmpint %s" % (d, tn, it), "c05::cmpint<%d,%s,%s>" % (d, c, ic))
    # elastic_scaled_integer
    exps = [-40, -16, -8, -3, -1, 0, 1, 5, 20]
    sops = [("ADD", "+"), ("SUB", "-"), ("MUL", "*"), ("LT", "<"), ("LE", "<="), ("GT", ">"), ("GE", ">="), ("EQ", "=="), ("NE", "!=")]
    for i in range(80 if tier == "quick" else 800):
        op, sym = rng.choice(sops)
        ld = rng.choice([1, 4, 7, 8, 15, 16, 31, 33, 40]); rd = rng.choice([1, 4, 7, 8, 15, 16, 31, 33, 40])
        le = rng.choice(exps); re_ = rng.choice(exps)
        ln = rng.choice([0, 1, 2, 3]); rn = rng.choice([0, 1, 2, 3])
        # aligning for +,-,comparison shifts the coarser operand by |le-re|: keep the aligned width within 126 bits
        if op != "MUL" and max(ld + max(0, le - min(le, re_)), rd + max(0, re_ - min(le, re_))) + 1 > 120: continue
        if op == "MUL" and ld + rd > 120: continue
        add("escaled<%d,%d,%s> %s escaled<%d,%d,%s>" % (ld, le, NARROW[ln][1], sym, rd, re_, NARROW[rn][1]),
            "c05::scaled<c05::%s,%d,%d,%s,%d,%d,%s>" % (op, ld, le, NARROW[ln][0], rd, re_, NARROW[rn][0]))
    # wide_integer storage (results above 127 digits): a fixed set of (LhsDigits, RhsDigits, limb type) x operator
    wn = [("cnl::wide_integer<31,int>", "w32"), ("cnl::wide_integer<63,std::int64_t>", "w64"), ("cnl::wide_integer<7,signed char>", "w8")]
    wpairs = [(150, 100), (220, 150), (50, 200), (130, 130), (200, 31), (128, 64), (190, 60)]
    wops = [("ADD", "+"), ("SUB", "-"), ("MUL", "*"), ("DIV", "/"), ("MOD", "%"), ("LT", "<"), ("EQ", "==")]
    for ld, rd in wpairs:
        for nc, nn in wn:
            for op, sym in wops:
                if op == "MUL" and ld + rd > 250: continue
                if tier == "quick" and (ld + rd + len(nn) + len(op)) % 2 and (ld, rd) not in ((220, 150), (50, 200)): continue
                add("elastic<%d,%s> %s elastic<%d,%s> [wide]" % (ld, nn, sym, rd, nn), "c05::binary_wide<c05::%s,%d,%d,%s>" % (op, ld, rd, nc))
    return [(d, '%s("%s");' % (c, d)) for d, c in ks.items()]


def run(tier, seed, only=None):
    res = core.Result("C05", tier, seed)
    ks = kernels(tier, seed)
    if only:
        ks = [k for k in ks if k[0] == only["kernel"]]
    cfgs = ["g-san"] if tier == "quick" else ["g-san", "c-san"]
    if only:
        cfgs = [only["config"]]
    env = {"VERIF_SEED": str(seed), "VERIF_NRAND": "40" if tier == "quick" else "200"}
    jobs = []
    for cfg in cfgs:
        for i, sh in enumerate(core.shard(ks, 1 if only else (32 if tier == "quick" else 64))):
            jobs.append(core.Job("c05-%d" % i, core.tu("c05.h", sh), cfg, env=env, timeout=3600))
    jobs += big.make_jobs("c05", BIG, tier, seed, cfgs, only)
    core.build_and_run(jobs, "C05")
    for j in jobs:
        res.absorb(j)
        if getattr(j, "post", None):
            j.post(res, j)
        if j.died:
            res.inconclusive.append("binary %s[%s] died outside a guarded case (rc=%s)" % (j.name, j.config, j.rc))
    res.extra["kernels_generated"] = len(ks)
    return res.finish(RULE + big.RULE, assumptions=[
        "oracle: exact arithmetic on 256-bit integers; / truncates toward zero, % has the sign of the dividend, >> is the arithmetic (floor) shift",
        ">> constant<s> judged for s < D only (result type with <= 0 digits is degenerate); result digits above 127 (wide_integer storage) not generated here",
        "expected digit counts are not prescribed: exact value, value inside the range the result type reports, limits formula"])
