"""C20 - exp2 and the mathematical constants are accurate to one unit in the last place (engine E-math, offline judge)."""
import math
from fractions import Fraction as Fr

from .. import core
from . import c19

PREC = 256
# 80-digit values (independent of CNL and of the C++ library)
CONSTS = {
 "e": "2.71828182845904523536028747135266249775724709369995957496696762772407663035354759",
 "log2e": "1.44269504088896340735992468100189213742664595415298593413544940693110921918118507",
 "log10e": "0.43429448190325182765112891891660508229439700580366656611445378316586464920887077",
 "pi": "3.14159265358979323846264338327950288419716939937510582097494459230781640628620899",
 "inv_pi": "0.31830988618379067153776752674502872406891929148091289749533468811779359526845307",
 "inv_sqrtpi": "0.56418958354775628694807945156077258584405062932899885684408572171064246844152320",
 "ln2": "0.69314718055994530941723212145817656807550013436025525412068000949339362196969471",
 "ln10": "2.30258509299404568401799145468436420760110148862877297603332790096757260967735248",
 "sqrt2": "1.41421356237309504880168872420969807856967187537694807317667973799073247846210703",
 "sqrt3": "1.73205080756887729352744634150587236694280525381038062805580697945193301690880003",
 "inv_sqrt3": "0.57735026918962576450914878050195745564760175127013187601860232648397767230293334",
 "egamma": "0.57721566490153286060651209008240243104215933593992359880576723488486772677766467",
 "phi": "1.61803398874989484820458683436563811772030917980576286213544862270526046281890244",
}
RULE = ("exp2: kernel = scaled_integer<Rep, power<E>> for Rep of 8..32 bits and every exponent leaving at least one integer bit (frozen universe matrix/math.json); 8/16-bit reps are swept exhaustively, 32-bit reps on a seeded stride "
        "plus dense windows around integral x and seeded random values; every result rep is logged and compared offline with floor(2^x / 2^E) computed on 256-bit fixed point (2^frac from repeated integer square roots; a result within 2^-200 of an integer "
        "accepts both neighbours); integral x must be exact. constants: every (constant, Rep 8..64 bit, exponent with room for the constant) object is read at run time and compared with an 80-digit value: |rep*2^E - c| < 2^E. "
        "Known per-format exp2 deviations of 2..3 units are matched by known findings carrying the exhaustively established maximum. distinct_nontrivial counts distinct judged inputs whose exact result is not an integer power of two, and all constants.")

_roots = None


def roots():
    """r[i] = floor(2^(2^-i) * 2^PREC)"""
    global _roots
    if _roots is None:
        r = [2 << PREC]
        for i in range(1, 80):
            r.append(math.isqrt(r[-1] << PREC))
        _roots = r
    return _roots


_memo = {}


def pow2_frac(j, k):
    """floor-ish 2^(j/2^k) * 2^PREC for 0 <= j < 2^k, error < k * 2^-(PREC-2) relative"""
    key = (j, k)
    v = _memo.get(key)
    if v is None:
        r = roots()
        v = 1 << PREC
        for i in range(1, k + 1):
            if (j >> (k - i)) & 1:
                v = (v * r[i]) >> PREC
        if len(_memo) < 2000000:
            _memo[key] = v
    return v


def exp2_floor(rep, E):
    """(lo, hi): admissible values of floor(2^(rep*2^E) / 2^E) given the oracle's own uncertainty"""
    F = -E
    ip = rep >> F if F > 0 else rep << -F
    if ip + F > 40:
        return None  # 2^x / 2^E >= 2^40: not representable in a rep of <= 32 bits
    if ip + F < -8:
        return (0, 0)
    j = rep - (ip << F) if F > 0 else 0
    m = pow2_frac(j, F) if F > 0 else (1 << PREC)   # 2^frac * 2^PREC
    # value / 2^E = m * 2^(ip + F - PREC)
    sh = ip + F - PREC
    slack = (1 << 40) if j else 0  # generous: accumulated truncation of at most F products (none for integral x)
    if sh >= 0:
        return (m << sh, m << sh)
    lo = (m - slack) >> -sh if m > slack else 0
    hi = (m + slack) >> -sh
    return lo, hi


def judge(res, job):
    kd = {r["id"]: r for r in job.records if r.get("t") == "kd"}
    tall = {}
    for line in job.raw:
        p = line.split()
        if not p or p[0] not in "XK":
            continue
        kid = int(p[1])
        k = kd.get(kid)
        if not k:
            continue
        t = tall.setdefault(kid, {"judged": 0, "ood": 0, "nt": 0, "kinds": {}, "classes": {}, "samples": [], "viol": {}})
        def viol(cls, w):
            n, ws = t["viol"].get(cls, (0, []))
            if len(ws) < 4:
                ws.append(w)
            t["viol"][cls] = (n + 1, ws)
        E = k["exp"]
        lo, hi = int(k["lo"]), int(k["hi"])
        if p[0] == "X":
            rep = int(p[2])
            fl = exp2_floor(rep, E)
            if fl is None or fl[1] > hi:
                t["ood"] += 1
                continue
            wl, wh = fl
            # result representable, and (quantifier) at least one integer bit is guaranteed by the format
            t["judged"] += 1
            t["kinds"][p[3]] = t["kinds"].get(p[3], 0) + 1
            w = {"in": "%s x(rep)=%d" % (k["k"], rep), "exp": str(wl) if wl == wh else "%d..%d" % (wl, wh), "obs": p[3] + " " + p[4]}
            if p[3] != "VALUE":
                # defect model (KF-C20-04): positive exponent and an integer part of x that the Rep cannot hold: static_cast<Rep>(floor(x)) overflows
                if E > 0 and not (lo <= rep << E <= hi) and p[3] in ("UB_TRAP", "SIGNAL"):
                    viol("exp2_positive_exponent_integer_part_exceeds_rep:" + p[3], w)
                else:
                    viol("exp2:" + p[3], w)
                continue
            got = int(p[4])
            F = -E
            # "exact for integral x" presupposes that 2^x itself is a multiple of the resolution (x >= E)
            integral = (F <= 0 or (rep & ((1 << F) - 1)) == 0) and (rep >> F if F > 0 else rep << -F) >= E
            if not integral:
                t["nt"] += 1
            d = 0 if wl <= got <= wh else min(abs(got - wl), abs(got - wh))
            if d > 1 and E > 0 and not (lo <= rep << E <= hi):
                # same defect model as the trap (KF-C20-04) for reps narrower than int: the conversion of floor(x) to Rep wraps instead of trapping
                viol("exp2_positive_exponent_integer_part_exceeds_rep:wrong_value", w)
            elif integral and d != 0:
                viol("exp2_not_exact_for_integral_x", w)
            elif d > 1:
                viol("exp2_deviation:%d" % d, w)
            else:
                t["classes"]["exp2_dev_%d" % d] = t["classes"].get("exp2_dev_%d" % d, 0) + 1
                if d == 1 and len(t["samples"]) < 2:
                    t["samples"].append({"inputs": w["in"], "expected": w["exp"], "observed": str(got)})
        else:
            name, rep = p[2], int(p[3])
            t["judged"] += 1
            t["nt"] += 1
            s = CONSTS[name]
            c = Fr(int(s.replace(".", "")), 10 ** (len(s) - s.index(".") - 1))
            err = abs(Fr(rep) * Fr(2) ** E - c)
            ulp = Fr(2) ** E
            w = {"in": "%s" % k["k"], "exp": "|rep*2^%d - %s| < 2^%d (rep ~ %d)" % (E, name, E, int(c / ulp)), "obs": str(rep)}
            if err >= ulp + Fr(1, 10 ** 75):
                viol("constant_off_by_%s_ulp" % ("%.2f" % float(err / ulp)), w)
            else:
                b = "const_err_%s" % ("<0.5ulp" if err < ulp / 2 else "<1ulp")
                t["classes"][b] = t["classes"].get(b, 0) + 1
                if len(t["samples"]) < 1:
                    t["samples"].append({"inputs": k["k"], "expected": w["exp"], "observed": str(rep)})
    for kid, t in tall.items():
        res.add_tally(job, kd[kid]["k"], t["judged"], t["ood"], t["nt"], t["kinds"], t["classes"], t["samples"], t["viol"])
    res.kernels[job.config] = res.kernels.get(job.config, 0) + len(tall)


def run(tier, seed, only=None):
    res = core.Result("C20", tier, seed)
    ex = [k for k in c19.load()["kernels"] if k["kind"] == "exp2"]
    co = c19.select("const", tier, seed, 300, 1200)
    if tier == "quick":
        small = [k for k in ex if "i8" in k["desc"] or "u8" in k["desc"] or "16" in k["desc"]]
        big = [k for k in ex if k not in small]
        import random
        rng = random.Random("C20-%d" % seed)
        pos = [k for k in big if not k["desc"].split(",")[-1].startswith("-") and not k["desc"].endswith(",0>>")]
        ex = small + pos + rng.sample([k for k in big if k not in pos], 16)
    ks = ex + co
    if only:
        ks = [k for k in c19.load()["kernels"] if k["desc"] == only["kernel"]]
    cfgs = ["g-san"] if tier == "quick" else ["g-san", "c-san"]
    if only:
        cfgs = [only["config"]]
    env = {"VERIF_SEED": str(seed), "VERIF_EXP2_STRIDE": str(1 << 17) if tier == "quick" else str(1 << 12)}
    stm = [(k["desc"], k["stmt"].replace('");', '", %d);' % i)) for i, k in enumerate(ks)]
    jobs = []
    for cfg in cfgs:
        for i, sh in enumerate(core.shard(stm, 1 if only else (32 if tier == "quick" else 64))):
            j = core.Job("c20-%d" % i, core.tu("c19.h", sh), cfg, env=env, timeout=3600)
            j.keep_raw = True
            jobs.append(j)
    core.build_and_run(jobs, "C20")
    for j in jobs:
        res.absorb(j)
        judge(res, j)
        if j.died:
            res.inconclusive.append("binary %s[%s] died outside a guarded case (rc=%s)" % (j.name, j.config, j.rc))
    res.extra["kernels_generated"] = len(ks)
    return res.finish(RULE, assumptions=["oracle: 256-bit fixed-point 2^x from integer square roots (python big integers); constants from 80-digit decimal strings carried by the harness",
                                         "exp2 domain: Rep <= 32 bits, result representable (a non-representable result is out of domain)"])
