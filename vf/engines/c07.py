"""C07 - checked arithmetic is total (shares engine E-overflow with C06; owns the trap/abort/hang events)."""
from . import c06

RULE = ("same kernels and workload as C06 (exhaustive 8x8-bit pairs, boundary lattice squared, bound-solved pairs, all shift counts 0..2w+1 and huge counts, float neighbours of every bound, +-inf, +-NaN, scaled_integer sources of the checked conversion, "
        "seeded random); the monitor is the event kind only: a UBSan trap (signed overflow, shift, division, float-cast), SIGFPE/SIGSEGV, a CNL abort whose message is not the tag's own "
        "'positive/negative overflow', an unexpected exception type or a hang is a violation. distinct_nontrivial as in C06.")


def run(tier, seed, only=None):
    res = c06.run_prop("C07", tier, seed, only)
    return res.finish(RULE, assumptions=[
        "UB is observed only on executed inputs, through -fsanitize=undefined,float-cast-overflow,float-divide-by-zero in trap mode and the CNL_DEBUG abort hook",
        "domain: divisor != 0, shift count >= 0; floating-point sources include +-NaN and +-inf", "value mismatches are C06's business"])
