"""C13 / C14 - to_chars stays inside the buffer and reports failure cleanly; the text denotes the value (engine E-text)."""
import json
import os
import random
import re
import sys
from fractions import Fraction as Fr

from .. import core

PATH = os.path.join(core.VERIF, "matrix", "text.json")
INT_TYPES = [("signed char", "i8"), ("unsigned char", "u8"), ("short", "i16"), ("unsigned short", "u16"), ("int", "i32"), ("unsigned", "u32"), ("long", "i64"), ("unsigned long", "u64"),
             ("vf::i128", "i128"), ("vf::u128", "u128"), ("cnl::wide_integer<200,int>", "wide200"), ("cnl::wide_integer<103,int>", "wide103"), ("cnl::wide_integer<256,int>", "wide256"), ("cnl::wide_integer<512,std::int64_t>", "wide512"), ("cnl::elastic_integer<20>", "elastic20"),
             ("cnl::overflow_integer<int,cnl::saturated_overflow_tag>", "overflow_i32"), ("cnl::wide_integer<100,unsigned>", "wide100u"),
             # wrappers whose representation is a character type: the numeral, not the character, must be printed
             ("cnl::elastic_integer<7,signed char>", "elastic7c"), ("cnl::overflow_integer<signed char,cnl::saturated_overflow_tag>", "overflow_i8"),
             ("cnl::rounding_integer<unsigned char,cnl::nearest_rounding_tag>", "rounding_u8"), ("cnl::wide_integer<7,signed char>", "wide7c"), ("cnl::elastic_integer<3,unsigned char>", "elastic3uc"),
             # a rounding layer nested inside other wrappers (the numeral's digits come from truncating divisions whatever the rounding mode)
             ("cnl::static_integer<20>", "static20"), ("cnl::overflow_integer<cnl::rounding_integer<int,cnl::nearest_rounding_tag>,cnl::saturated_overflow_tag>", "overflow_rounding_i32"),
             ("cnl::elastic_integer<31,cnl::rounding_integer<int,cnl::nearest_rounding_tag>>", "elastic31_rounding"), ("cnl::rounding_integer<long,cnl::nearest_rounding_tag>", "rounding_i64")]
REPS = [("signed char", "i8"), ("unsigned char", "u8"), ("short", "i16"), ("unsigned short", "u16"), ("int", "i32"), ("unsigned", "u32"), ("long", "i64"), ("unsigned long", "u64")]

RULE13 = ("kernel = integer type (built-in 8..128 bit, wide_integer, elastic_integer, overflow_integer; bases 2,3,8,10,16,36) or scaled_integer<Rep, power<E,R>> from the frozen universe matrix/text.json (fixed core + VERIF_SEED sample). "
          "Each (value, base, buffer length) is one to_chars call inside a heap arena whose surroundings are ASan-poisoned and canaried; lengths run over every 0..needed+2 (integers) / 0..capacity+2 (scaled); values: all for <=8-bit reps, "
          "boundary lattice + decimal landmarks (10^k, 10^k+-1, max/3, max/5, max/10) + seeded random otherwise. Judged offline: canaries intact, no trap/abort/hang (H3 tick budget 1e5, CPU watchdog), success => first < p <= last, "
          "failure => value_too_large and ptr == last, fixed-capacity variants (to_chars_static incl. non-decimal bases, to_string, operator<<) succeed. distinct_nontrivial counts calls with length <= 2, length within 1 of the text's length, or a limit value.")
RULE14 = ("same calls as C13; every successful text is parsed with an independent grammar and compared exactly (python Fractions) with the value: integers must be the canonical numeral in the base; scaled texts must have the value's sign, "
          "|text| <= |value|, |value|-|text| < one unit of the last printed digit + eps_sig*|value| (eps_sig = (|E|+1)*c/max(int64) with c = 5 for radix 2 and E<0, 10*R for other radices, 100 for E>0), be exact when the full expansion has <= 18 significant digits and the buffer holds its plain form plus one, "
          "and to_string/to_chars_static/operator<< must equal to_chars with a buffer of the type's capacity. distinct_nontrivial counts distinct (value,length) texts that are inexact, at the exactness limit, negative, or from a limit value.")


def candidates():
    rng = random.Random(1313)
    out = {}
    exps2 = [-70, -64, -40, -32, -31, -16, -15, -8, -7, -3, -1, 0, 1, 3, 8, 20, 30, 40, 70]
    for rc, rn in REPS:
        for e in exps2:
            out["scaled<%s,%d,2>" % (rn, e)] = "c13::scaled<%s,%d,2>" % (rc, e)
        for e in [-30, -18, -9, -6, -3, -1, 0, 1, 2, 5]:
            out["scaled<%s,%d,10>" % (rn, e)] = "c13::scaled<%s,%d,10>" % (rc, e)
        for e in [-5, -2, 1]:
            out["scaled<%s,%d,3>" % (rn, e)] = "c13::scaled<%s,%d,3>" % (rc, e)
            out["scaled<%s,%d,8>" % (rn, e)] = "c13::scaled<%s,%d,8>" % (rc, e)
    for d in (10, 20, 30, 40, 50, 60):
        for e in (1, 2, -1, -3):
            out["scaled<e%d,%d,10>" % (d, e)] = "c13::scaled<cnl::elastic_integer<%d>,%d,10>" % (d, e)
        out["scaled<e%d,-4,2>" % d] = "c13::scaled<cnl::elastic_integer<%d>,-4,2>" % d
    # radixes above 10 (a digit of the radix is worth more than a decimal digit), positive and negative exponents
    for rc, rn in (("int", "i32"), ("unsigned char", "u8"), ("long", "i64"), ("short", "i16")):
        for r, es in ((16, (12, 4, 1, -2)), (12, (14, 3, -1)), (36, (5, -1))):
            for e in es:
                out["scaled<%s,%d,%d>" % (rn, e, r)] = "c13::scaled<%s,%d,%d>" % (rc, e, r)
    for e in range(-70, 71):
        rc, rn = rng.choice(REPS)
        out.setdefault("scaled<%s,%d,2>" % (rn, e), "c13::scaled<%s,%d,2>" % (rc, e))
    return out


def load():
    with open(PATH) as f:
        return json.load(f)


def select(tier, seed):
    uni = load()["kernels"]
    rng = random.Random("C13-%d" % seed)
    ncore = 40
    n = 110 if tier == "quick" else len(uni)
    chosen = uni[:ncore] + rng.sample(uni[ncore:], max(0, min(len(uni) - ncore, n - ncore)))
    ks = [("ints<%s>" % tn, 'c13::ints<%s>' % tc) for tc, tn in INT_TYPES]
    el = [k for k in uni if k["desc"].startswith("scaled<e")]
    chosen += [k for k in el if k not in chosen]
    hr = [k for k in uni if k["desc"].endswith((",12>", ",16>", ",36>"))]
    chosen += [k for k in (hr if tier == "thorough" else hr[seed % 2::2]) if k not in chosen]
    return ks + [(k["desc"], k["stmt"]) for k in chosen]


def capacity_stmts(tier, first_kid):
    """capacity of the fixed-capacity variants for every digit count (elastic 1..127, wide_integer 128..N)"""
    st = [("capacity elastic 1..127", 'c13::capacity_elastic("capacity elastic 1..127", %d, std::make_integer_sequence<int, 127>{});' % first_kid)]
    top = 640 if tier == "quick" else 2000
    kid = first_kid + 1
    for base in range(128, top, 64):
        d = "capacity wide %d..%d" % (base, base + 63)
        st.append((d, 'c13::capacity_wide<%d>("%s", %d, std::make_integer_sequence<int, 64>{});' % (base, d, kid)))
        kid += 1
    return st


DIG = "0123456789abcdefghijklmnopqrstuvwxyz"


def to_base(v, b):
    if v == 0:
        return "0"
    s = ""
    n = abs(v)
    while n:
        s = DIG[n % b] + s
        n //= b
    return ("-" if v < 0 else "") + s


PAT = re.compile(r"^(-?)(\d*)(?:\.(\d*))?(?:e(-?\d+))?$")
MAXSIG = 2 ** 63 - 1


def parse_text(txt):
    m = PAT.match(txt)
    if not m:
        return None
    sgn, ip, fp, e = m.groups()
    fp = fp or ""
    e = int(e) if e else 0
    if ip == "" and fp == "":
        return None
    t = Fr(int((ip + fp) or "0"), 10 ** len(fp)) * Fr(10) ** e
    unit = Fr(10) ** (e - len(fp))
    return (-t if sgn else t), unit, bool(sgn)


def expansion(av):
    """plain fixed form of a non-negative rational with a terminating decimal expansion: (text with leading 0, significant digits)"""
    ip = av.numerator // av.denominator
    fr = av - ip
    fd = 0
    while fr.denominator != 1:
        fr *= 10
        fd += 1
        if fd > 400:
            return None, 999
    digits = str(ip) + (str(int(fr)).zfill(fd) if fd else "")
    full = str(ip) + (("." + str(int(fr)).zfill(fd)) if fd else "")
    return full, len(digits.strip("0")) or 1


def judge(res13, res14, job):
    kd = {r["id"]: r for r in job.records if r.get("t") == "kd"}
    vals = {}
    T13, T14 = {}, {}
    def tal(T, kid):
        return T.setdefault(kid, {"judged": 0, "ood": 0, "nt": 0, "kinds": {}, "classes": {}, "samples": [], "viol": {}})
    def viol(t, cls, w):
        n, ws = t["viol"].get(cls, (0, []))
        if len(ws) < 4:
            ws.append(w)
        t["viol"][cls] = (n + 1, ws)
    cap_text = {}
    long_text = {}
    static_forms = {}
    for line in job.raw:
        p = line.split(" ")
        tag = p[0]
        if tag == "V":
            if p[3].startswith("E"):
                k_, d_, n_ = p[3][1:].split(":")
                v_ = (1 << int(k_)) + int(d_)
                vals[(int(p[1]), int(p[2]))] = -v_ if n_ == "1" else v_
            else:
                vals[(int(p[1]), int(p[2]))] = int(p[3])
            continue
        if tag == "P" and len(p) >= 11:
            kid, vidx, base, ln, kind, ec, off, canary, tail = int(p[1]), int(p[2]), int(p[3]), int(p[4]), p[5], int(p[6]), int(p[7]), int(p[8]), int(p[9])
            txt = " ".join(p[10:])
            k = kd.get(kid)
            if k is None or (kid, vidx) not in vals:
                continue
            rep = vals[(kid, vidx)]
            t13 = tal(T13, kid); t14 = tal(T14, kid)
            t13["judged"] += 1
            t13["kinds"][kind] = t13["kinds"].get(kind, 0) + 1
            w = {"in": "%s value(rep)=%d base=%d len=%d" % (k["k"], rep, base, ln), "exp": "", "obs": "%s ec=%d off=%d canary=%d text=%s" % (kind, ec, off, canary, txt)}
            nt13 = ln <= 2
            if not canary:
                viol(t13, "canary_touched", dict(w, exp="no byte outside [first,last) written"))
            if kind != "VALUE":
                viol(t13, "kind:" + kind + ((":" + txt.split(" assert")[0]) if kind == "CNL_ABORT" else ""), dict(w, exp="returns normally"))
                continue
            if ec == 0:
                if not (0 < off <= ln):
                    viol(t13, "success_ptr_out_of_range", dict(w, exp="first < p <= last"))
                    continue
                if abs(off - ln) <= 1:
                    nt13 = True
                if tail:
                    t13["classes"]["tail_bytes_modified_on_success(info)"] = t13["classes"].get("tail_bytes_modified_on_success(info)", 0) + 1
            else:
                t13["classes"]["failure_reported"] = t13["classes"].get("failure_reported", 0) + 1
                if ec != 75 or off != ln:
                    viol(t13, "failure_not_value_too_large_at_last" + (":nullptr" if off == -999 else ""), dict(w, exp="ec=value_too_large(75), ptr==last"))
                nt13 = True
            if nt13:
                t13["nt"] += 1
                if len(t13["samples"]) < 2 and (ec != 0 or abs(off - ln) <= 1) and ln > 0:
                    t13["samples"].append({"inputs": w["in"], "expected": "canaries intact; success: first < p <= last, failure: value_too_large and ptr == last", "observed": w["obs"]})
            if ec != 0:
                continue
            # ---------------- C14: meaning of the text
            t14["judged"] += 1
            w14 = {"in": w["in"], "exp": "", "obs": txt}
            if k["kind"] == "int":
                want = to_base(rep, base)
                if txt != want:
                    viol(t14, "integer_text_wrong", dict(w14, exp=want))
                else:
                    if rep < 0 or base != 10:
                        t14["nt"] += 1
                    if len(t14["samples"]) < 2 and base != 10:
                        t14["samples"].append({"inputs": w["in"], "expected": want, "observed": txt})
                if base == 10:
                    cap_text[(kid, vidx)] = txt if len(txt) >= len(cap_text.get((kid, vidx), "")) else cap_text[(kid, vidx)]
                continue
            E, R = k["exp"], k["radix"]
            v = Fr(rep) * Fr(R) ** E
            if ln == k["capacity"]:
                cap_text[(kid, vidx)] = txt
            if ln >= long_text.get((kid, vidx), (0, ""))[0]:
                long_text[(kid, vidx)] = (ln, txt)
            pr = parse_text(txt)
            if pr is None:
                viol(t14, "text_does_not_parse", dict(w14, exp="-?digits*[.digits*][e-?digits]"))
                continue
            tv, unit, neg = pr
            if tv != 0 and (tv < 0) != (v < 0):
                viol(t14, "wrong_sign", dict(w14, exp=str(float(v))))
                continue
            if abs(tv) > abs(v):
                viol(t14, "magnitude_exceeds_value", dict(w14, exp="<= %s" % str(float(abs(v)))))
                continue
            d = abs(v) - abs(tv)
            nt = rep < 0
            full, nsig = expansion(abs(v))
            if full is not None and nsig <= 18 and ln >= len(full) + 1 + (1 if v < 0 else 0):
                t14["classes"]["exactness_demanded"] = t14["classes"].get("exactness_demanded", 0) + 1
                nt = nt or nsig >= 15
                if d != 0:
                    # defect model (KF-C14-01): an integer value beyond the 64-bit significand whose 18 significant digits would fit it once the
                    # trailing zeros are moved into the exponent - descale multiplies by the radix first and then has to drop a digit
                    big = v.denominator == 1 and abs(v) > MAXSIG
                    # defect model (KF-C14-02): a radix that is neither 2 nor 10 with a negative exponent: the f fractional decimal digits are
                    # produced from rep * 10^f, which no longer fits the 64-bit significand although the quotient by R^-E has <= 18 digits
                    fdig = len(full.split(".")[1]) if "." in full else 0
                    inter = E < 0 and R not in (2, 10) and abs(rep) * 10 ** fdig > MAXSIG
                    viol(t14, "not_exact_although_it_fits" + (":integer_value_exceeds_the_64_bit_significand" if big else ":scaled_up_significand_exceeds_64_bits" if inter else ""), dict(w14, exp=("-" if v < 0 else "") + full))
                    continue
            if d != 0:
                nt = True
                t14["classes"]["truncated_text"] = t14["classes"].get("truncated_text", 0) + 1
                if d >= unit:
                    # per lossy descale step: radix 2 halves an odd significand > max/10 (1/2 unit: 5/max, measured margin 2.7x);
                    # a radix-R step drops < 1 unit of a quotient > max/(10R): 10R/max; positive exponents drop a decimal digit: 100/max
                    eps = Fr((abs(E) + 1) * (100 if E > 0 else 5 if R == 2 else 10 * R), MAXSIG)
                    rel = (d - unit) / abs(v)
                    t14["classes"]["significand_limit_slack_used"] = t14["classes"].get("significand_limit_slack_used", 0) + 1
                    if rel > eps:
                        viol(t14, "error_exceeds_one_unit_plus_eps", dict(w14, exp="|v|-|t| < %s + eps*|v|, v=%s" % (str(float(unit)), str(float(v)))))
                        continue
            if nt:
                t14["nt"] += 1
            if len(t14["samples"]) < 2 and d != 0:
                t14["samples"].append({"inputs": w["in"], "expected": "%s truncated" % str(float(v)), "observed": txt})
        elif tag == "Q" and len(p) == 7:
            kid, D, sg, wide, base, cap = (int(x) for x in p[1:])
            k = kd.get(kid)
            if k is None:
                continue
            t13 = tal(T13, kid)
            t13["judged"] += 1
            t13["nt"] += 1
            mag = (1 << D) if (wide and sg) else (1 << D) - 1   # most negative value: -2^D for wide_integer, -(2^D-1) for elastic_integer
            need = len(to_base(mag, base)) + (1 if sg else 0)
            if cap < need:
                viol(t13, "fixed_capacity_too_small", {"in": "%s digits=%d signed=%d base=%d" % ("wide_integer" if wide else "elastic_integer", D, sg, base), "exp": "capacity >= %d" % need, "obs": "capacity %d" % cap})
            elif cap == need:
                t13["classes"]["capacity_exactly_sufficient"] = t13["classes"].get("capacity_exactly_sufficient", 0) + 1
        elif tag == "S" and len(p) >= 6:
            kid, vidx, form, kind = int(p[1]), int(p[2]), p[3], p[4]
            txt = " ".join(p[5:])
            k = kd.get(kid)
            if k is None or (kid, vidx) not in vals:
                continue
            rep = vals[(kid, vidx)]
            t13 = tal(T13, kid); t14 = tal(T14, kid)
            t13["judged"] += 1
            t13["nt"] += 1
            w = {"in": "%s value(rep)=%d %s" % (k["k"], rep, form), "exp": "succeeds for every value", "obs": "%s %s" % (kind, txt)}
            if kind != "VALUE" or txt == "-" and rep != 0:
                viol(t13, "fixed_capacity_variant_failed:" + form + ":" + kind, w)
                continue
            static_forms[(kid, vidx, form)] = txt
    # fixed-capacity variants print the same text as to_chars with an adequate buffer
    for (kid, vidx, form), txt in static_forms.items():
        k = kd[kid]
        t14 = tal(T14, kid)
        rep = vals[(kid, vidx)]
        t14["judged"] += 1
        if form in ("stream_oct", "stream_hex"):
            b_ = 8 if form == "stream_oct" else 16
            alts = {to_base(rep, 10), to_base(rep, b_), to_base(rep % (1 << 128), b_)}
            if txt.lower() not in alts:
                viol(t14, "stream_with_sticky_base_flag_wrong", {"in": "%s value(rep)=%d %s" % (k["k"], rep, form), "exp": " or ".join(sorted(alts)), "obs": txt})
                if any(a_.startswith(txt.lower()) for a_ in alts):
                    # a proper prefix of the numeral: the inserter's fixed buffer had no room for the value (C13)
                    viol(tal(T13, kid), "fixed_capacity_variant_truncated:" + form, {"in": "%s value(rep)=%d %s" % (k["k"], rep, form), "exp": " or ".join(sorted(alts)), "obs": txt})
            else:
                t14["nt"] += 1
            continue
        if form.startswith("staticB"):
            want = to_base(rep, int(form[7:]))
        else:
            want = cap_text.get((kid, vidx))
            if want is None:
                t14["ood"] += 1
                t14["judged"] -= 1
                continue
        if txt != want:
            viol(t14, "fixed_capacity_text_differs:" + form, {"in": "%s value(rep)=%d %s" % (k["k"], rep, form), "exp": want, "obs": txt})
        else:
            t14["nt"] += 1
        if k["kind"] != "int" and (k["exp"] >= 0 or k["radix"] == 10):
            # "the fixed-capacity variants always provide enough room" (C13) + "exact whenever the full expansion fits the buffer and 18
            # significant digits" (C14): a type whose values are all integers (exponent >= 0), or whose radix is 10 (exactly -exponent
            # fractional digits), has a bounded exact numeral; the fixed capacity must hold it, so the text is exact up to 18 digits.
            # (radix 2/8 with negative exponents: the fixed capacity may legitimately be shorter than the expansion; see class below)
            v = Fr(rep) * Fr(k["radix"]) ** k["exp"]
            full, nsig = expansion(abs(v))
            if full is not None and nsig <= 18:
                pr = parse_text(txt)
                if not (pr and pr[0] == v):
                    big = v.denominator == 1 and abs(v) > MAXSIG
                    viol(t14, "fixed_capacity_text_not_exact_for_integer_valued_or_decimal_type:" + form + (":integer_value_exceeds_the_64_bit_significand" if big else ""),
                         {"in": "%s value(rep)=%d %s capacity=%d" % (k["k"], rep, form, k["capacity"]), "exp": ("-" if v < 0 else "") + full, "obs": txt})
                else:
                    t14["classes"]["fixed_capacity_exactness_demanded"] = t14["classes"].get("fixed_capacity_exactness_demanded", 0) + 1
        elif k["kind"] != "int" and (kid, vidx) in long_text and txt != long_text[(kid, vidx)][1]:
            t14["classes"]["fixed_capacity_text_shorter_than_long_buffer_text(info)"] = t14["classes"].get("fixed_capacity_text_shorter_than_long_buffer_text(info)", 0) + 1
    for T, res in ((T13, res13), (T14, res14)):
        if res is None:
            continue
        for kid, t in T.items():
            res.add_tally(job, kd[kid]["k"], t["judged"], t["ood"], t["nt"], t["kinds"], t["classes"], t["samples"], t["viol"])
        res.kernels[job.config] = res.kernels.get(job.config, 0) + len(T)
        for r in job.records:
            if r.get("t") == "asan":
                res.violations.append({"config": job.config, "kernel": r.get("kernel", "?"), "cls": "ASAN_REPORT", "count": 1, "witnesses": [{"in": r.get("input"), "exp": "no access outside [first,last)", "obs": "AddressSanitizer report (see .cache/logs)"}],
                                       "site": None, "chain": None, "binary": job.binary, "job": job.name})


def make_jobs(tier, seed, only=None):
    ks = select(tier, seed)
    if only:
        ks = [k for k in select("thorough", seed) if k[0] == only["kernel"]]
    cfgs = ["g-san", "g-rel-asan"] if tier == "quick" else ["g-san", "g-rel-asan", "c-san"]
    if only:
        cfgs = [only["config"]]
    env = {"VERIF_SEED": str(seed), "VERIF_NRAND": "12" if tier == "quick" else "60", "VERIF_TEXT_EXH": "8" if tier == "quick" else "10"}
    stm = [(d, '%s("%s", %d, %d);' % (c, d, i, 200)) for i, (d, c) in enumerate(ks)]
    if not only:
        stm += capacity_stmts(tier, len(ks) + 10)
    jobs = []
    for cfg in cfgs:
        for i, sh in enumerate(core.shard(stm, 1 if only else (32 if tier == "quick" else 96))):
            j = core.Job("c13-%d" % i, core.tu("c13.h", sh), cfg, env=env, extra_flags=["-DCNL_USE_IOSTREAMS=1"], timeout=3600)
            j.keep_raw = True
            j.spill = True   # logs of a thorough run are tens of GB: kept on disk, judged job by job
            jobs.append(j)
    return jobs, len(ks)


def run_both(prop, tier, seed, only=None):
    res = core.Result(prop, tier, seed)
    jobs, nk = make_jobs(tier, seed, only)
    core.build_and_run(jobs, prop)
    for j in jobs:
        res.absorb(j)
        judge(res if prop == "C13" else None, res if prop == "C14" else None, j)
        if hasattr(j.raw, "discard"):
            j.raw.discard()
        if j.died and not any(r.get("t") == "asan" for r in j.records):
            res.inconclusive.append("binary %s[%s] died outside a guarded case (rc=%s)" % (j.name, j.config, j.rc))
    res.extra["kernels_generated"] = nk
    return res


def run(tier, seed, only=None):
    res = run_both("C13", tier, seed, only)
    return res.finish(RULE13, assumptions=["canaries + ASan poisoning (8-aligned first) detect writes and reads outside [first,last)", "bytes in [p,last) modified on success are recorded as information only",
                                           "hang = more than 1e5 ticks of hook H3 in descale, or 200 ms CPU for one call (re-run to confirm)"])


if __name__ == "__main__":
    from .. import probe
    c = candidates()
    stmts = [(d, '%s("%s", 0, 64);' % (s, d)) for d, s in c.items()]
    print("probing %d candidates" % len(stmts), file=sys.stderr)
    old = core.COMMON[:]
    core.COMMON.append("-DCNL_USE_IOSTREAMS=1")
    ok, bad = probe.probe("c13.h", stmts, batch=6)
    okset = set(d for d, s in ok)
    kernels = [{"desc": d, "stmt": c[d]} for d in c if d in okset]
    random.Random(7).shuffle(kernels)
    with open(PATH, "w") as f:
        json.dump({"probed_against_tree": core.tree_hash()[:16], "instantiable": len(kernels), "not_instantiable": sorted(d for d, s in bad), "kernels": kernels}, f, indent=0)
    print("instantiable %d, not instantiable %d" % (len(kernels), len(bad)))
