"""C17 - constructing a fraction from floating point terminates with a faithful result (engine E-fraction, offline judge)."""
import json
import os
import sys
from fractions import Fraction as Fr

from .. import core
from .c04 import hexl

TYPES = [("short", "i16"), ("int", "i32"), ("long", "i64")]
FLOATS = [("float", "f32"), ("double", "f64"), ("long double", "f80")]
RULE = ("kernel = (component type, floating type, route fraction<T>(x) | make_fraction<T>(x)). Inputs: every exponent in [-(D+8), D] x 32 mantissa patterns (both signs), all ratios p/q with p,q <= 40, k/10, k/1000, 1/k, k/3, integers, "
        "the eight floats next to max(T) and max/2, max/3, tiny values 2^-60..2^-20, 1/q for large q, plus seeded random full- and short-mantissa values. Every construction is logged with the H3 tick count and judged offline with python Fractions against the full "
        "statement: terminates (<= 1e6 mediant iterations, CPU watchdog), positive denominator, sign of the input, exact when x = P/Q with |P|,Q <= max(T), else within the adjacent integers and |n/d - x| < max(1,|x|)*2^(4-D). "
        "The domain is split by a predicate on x alone: easy iff x = P/Q in lowest terms with |P|,Q <= max(T)/2 and max(|P|,1)*Q <= 2^(M-1) (M = significand width). Easy inputs are judged strictly (and must need <= 200 iterations); deviations on hard inputs are "
        "attributed to known finding KF-C17-01 only for the recorded outcome kinds. distinct_nontrivial counts distinct judged inputs that are non-integers.")


def easy(x, maxT, M):
    P, Q = abs(x.numerator), x.denominator
    return P <= maxT // 2 and Q <= maxT // 2 and max(P, 1) * Q <= 2 ** (M - 1)


BASE_PATH = os.path.join(core.VERIF, "matrix", "c17_baseline.json")
RECORD = None
_baseline = False


def load_baseline():
    global _baseline
    if _baseline is False:
        _baseline = None
        if os.path.exists(BASE_PATH):
            with open(BASE_PATH) as f:
                d = json.load(f)
            _baseline = {k: set(v) for k, v in d["deviating_inputs"].items()}
    return _baseline


def judge(res, job):
    baseline = load_baseline()
    kd = {r["id"]: r for r in job.records if r.get("t") == "kd"}
    tall = {}
    pcs = set()
    rows = []
    for line in job.raw:
        p = line.split()
        if len(p) != 9 or p[0] not in ("G", "Gr"):
            continue
        rows.append(p)
        if p[3] in ("UB_TRAP", "SIGNAL"):
            pcs.add(p[8])
    sym = core.symbolize(job.binary, list(pcs)) if pcs else {}
    seen = set()
    for p in rows:
        kid = int(p[1])
        k = kd.get(kid)
        if not k:
            continue
        t = tall.setdefault(kid, {"judged": 0, "ood": 0, "nt": 0, "kinds": {}, "classes": {}, "samples": [], "viol": {}})
        x = hexl(p[2])
        maxT = int(k["max"]); D = k["digits"]; M = k["mant"]
        if x is None or abs(x) > maxT:
            t["ood"] += 1
            continue
        kind = p[3]
        t["judged"] += 1
        t["kinds"][kind] = t["kinds"].get(kind, 0) + 1
        if (kid, p[2]) not in seen and x.denominator != 1:
            t["nt"] += 1
        seen.add((kid, p[2]))
        is_easy = easy(x, maxT, M)
        dev = None
        if kind == "HANG":
            dev = "HANG"
        elif kind == "CNL_ABORT":
            dev = "abort:" + p[7].split("_assert")[0]
        elif kind in ("UB_TRAP", "SIGNAL"):
            site = (sym.get(p[8]) or {}).get("site")
            dev = "ub_trap:" + (site.split(":")[0] if site else "unknown_site")
        elif kind != "VALUE":
            dev = kind
        else:
            n, d = int(p[4]), int(p[5])
            ticks = int(p[6])
            if d <= 0:
                dev = "nonpositive_denominator"
            else:
                f = Fr(n, d)
                if f != 0 and x != 0 and (f < 0) != (x < 0):
                    dev = "wrong_sign"
                elif abs(x.numerator) <= maxT and x.denominator <= maxT:
                    if f != x:
                        dev = "not_exact_for_representable_ratio"
                else:
                    fl = abs(x).numerator // abs(x).denominator
                    if not (fl <= abs(f) <= fl + 1):
                        dev = "outside_adjacent_integers"
                    elif abs(f - x) >= max(1, abs(x)) * Fr(2) ** (4 - D):
                        dev = "error_bound_exceeded"
            if dev is None and is_easy and ticks > 200:
                dev = "too_many_iterations(%d)" % ticks
        cls_name = ("easy:" if is_easy else "hard:") + dev if dev else None
        if dev and not is_easy and p[0] == "G" and job.config == "g-san" and baseline is not None:
            # deterministic hard input: the set of such inputs that deviate on the pinned tree is recorded (matrix/c17_baseline.json);
            # a deterministic input that held there and deviates now is a regression, never attributed to the known finding
            if p[2] not in baseline.get(k["k"], ()):
                cls_name = "hard_regression:" + dev
            else:
                t["classes"]["hard:recorded_baseline_deviation"] = t["classes"].get("hard:recorded_baseline_deviation", 0) + 1
        if RECORD is not None and dev and not is_easy and p[0] == "G":
            RECORD.setdefault(k["k"], set()).add(p[2])
        t["classes"][("easy" if is_easy else "hard") + (":deviates" if dev else ":ok")] = t["classes"].get(("easy" if is_easy else "hard") + (":deviates" if dev else ":ok"), 0) + 1
        if cls_name:
            # collapse hard-class value deviations into one class each for the known-finding matcher
            n_, ws = t["viol"].get(cls_name, (0, []))
            if len(ws) < 4:
                ws.append({"in": p[2] + " = " + str(float(x)), "exp": "faithful fraction of the input (%s)" % ("easy" if is_easy else "hard"), "obs": "%s %s/%s ticks=%s %s" % (kind, p[4], p[5], p[6], p[7])})
            t["viol"][cls_name] = (n_ + 1, ws)
        elif len(t["samples"]) < 2 and x.denominator != 1:
            t["samples"].append({"inputs": p[2], "expected": str(x) if abs(x.numerator) <= maxT and x.denominator <= maxT else "within 2^(4-D)", "observed": "%s/%s in %s iterations" % (p[4], p[5], p[6])})
    for kid, t in tall.items():
        res.add_tally(job, kd[kid]["k"], t["judged"], t["ood"], t["nt"], t["kinds"], t["classes"], t["samples"], t["viol"])
    res.kernels[job.config] = res.kernels.get(job.config, 0) + len(tall)


def run(tier, seed, only=None):
    res = core.Result("C17", tier, seed)
    ks = []
    for tc, tn in TYPES:
        for fc, fn in FLOATS:
            for route in (0, 1):
                if tier == "quick" and route == 1 and (tn, fn) not in (("i32", "f64"), ("i16", "f32"), ("i64", "f80")):
                    continue
                d = "%s<%s>(%s)" % ("fraction" if route == 0 else "make_fraction", tn, fn)
                ks.append((d, "c16::fromfloat<%s,%s>" % (tc, fc), route))
    if only:
        ks = [k for k in ks if k[0] == only["kernel"]]
    cfgs = ["g-san"] if tier == "quick" else ["g-san", "c-san"]
    if only:
        cfgs = [only["config"]]
    env = {"VERIF_SEED": str(seed), "VERIF_NFLOAT": "12000" if tier == "quick" else "200000", "VERIF_TRAP_RATION": "1000000"}
    stm = [(d, '%s("%s", %d, %d);' % (c, d, i, r)) for i, (d, c, r) in enumerate(ks)]
    jobs = []
    for cfg in cfgs:
        for i, sh in enumerate(core.shard(stm, len(stm))):
            j = core.Job("c17-%d" % i, core.tu("c16.h", sh), cfg, env=env, timeout=3600)
            j.keep_raw = True
            jobs.append(j)
    core.build_and_run(jobs, "C17")
    for j in jobs:
        res.absorb(j)
        judge(res, j)
        if j.died:
            res.inconclusive.append("binary %s[%s] died outside a guarded case (rc=%s)" % (j.name, j.config, j.rc))
    if not only and res.classes.get("easy:ok", 0) < 1000:
        res.inconclusive.append("too few easy inputs judged")
    return res.finish(RULE, assumptions=["offline checker: python Fractions; floats printed exactly with %La", "hard inputs are run only in CNL_DEBUG configurations where the outcome is a deterministic assertion rather than undefined behaviour"])


if __name__ == "__main__":
    # record the deterministic hard inputs that deviate on the current (pinned + fixes) tree
    RECORD = {}
    _baseline = None
    run("thorough", 1)
    with open(BASE_PATH, "w") as f:
        json.dump({"recorded_against_tree": core.tree_hash()[:16], "what": "deterministic (seed-independent) hard-class inputs of each C17 kernel whose construction deviates from the statement on the tree the finding KF-C17-01 was recorded against; "
                   "any other deterministic input must hold", "deviating_inputs": {k: sorted(v) for k, v in RECORD.items()}}, f)
    print("recorded", {k: len(v) for k, v in RECORD.items()})
