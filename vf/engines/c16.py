"""C16 - fraction arithmetic, ordering, reduction, hashing (engine E-fraction)."""
from .. import core

TYPES = [("signed char", "i8"), ("short", "i16"), ("int", "i32"), ("long", "i64"), ("unsigned char", "u8"), ("unsigned", "u32")]
RULE = ("kernel = (component type, workload): binary kernels evaluate + - * / unary+- and the six comparisons on every pair of fractions whose four components range over [-12,12] (exhaustive, all sign patterns of numerator and denominator) "
        "and over a thinned boundary lattice of the component type; mixed kernels pair fractions of different component types (numerator and denominator types differing within and between the operands) over thinned lattices plus values whose cross products need more than 32 bits;  unary kernels run reduce, canonical, std::hash and conversion to double over all 2^16 fraction<int8_t> and over ranges/multiples k*(n,d) for wider types. "
        "Oracle: exact rationals on 256-bit integers (sign-correct cross multiplication, Euclid gcd); hash: fractions are grouped by exact canonical value and every group must map to one hash. "
        "Domain: denominators != 0, every product/sum the operators form fits the promoted component type, reduce/canonical/hash: components != most negative. "
        "distinct_nontrivial counts cases with a negative denominator, a zero numerator, equal values, or a non-trivial gcd.")


def kernels(tier, seed):
    ks = []
    for tc, tn in TYPES:
        ks.append(("fraction<%s> binary small" % tn, 'c16::binary<%s>("fraction<%s> binary small", 0);' % (tc, tn)))
        if tn not in ("i8", "u8"):
            ks.append(("fraction<%s> binary lattice" % tn, 'c16::binary<%s>("fraction<%s> binary lattice", 1);' % (tc, tn)))
    mixed = [("int", "int", "long long", "int"), ("long long", "int", "int", "int"), ("long", "long", "unsigned", "unsigned"), ("unsigned", "unsigned", "long", "long"),
             ("short", "int", "int", "short"), ("unsigned", "long", "unsigned", "long"), ("signed char", "int", "long", "signed char"), ("long", "int", "unsigned", "int"),
             ("unsigned short", "unsigned short", "long", "int"), ("int", "long", "unsigned char", "short")]
    short = {"int": "i32", "long long": "i64", "long": "i64", "unsigned": "u32", "short": "i16", "signed char": "i8", "unsigned short": "u16", "unsigned char": "u8"}
    for n1, d1, n2, d2 in mixed:
        d = "fraction<%s,%s> x fraction<%s,%s> mixed" % (short[n1], short[d1], short[n2], short[d2])
        ks.append((d, 'c16::binary_mixed<%s,%s,%s,%s>("%s");' % (n1, d1, n2, d2, d)))
    for n1, d1 in [("unsigned", "int"), ("int", "unsigned"), ("long", "int"), ("short", "long"), ("unsigned char", "short"), ("int", "signed char")]:
        d = "fraction<%s,%s> unary range" % (short[n1], short[d1])
        ks.append((d, 'c16::unary<%s,%s>("%s", %d);' % (n1, d1, d, 48 if tier == "quick" else 150)))
    ks.append(("fraction<i8> unary all", 'c16::unary<signed char>("fraction<i8> unary all", 0);'))
    ks.append(("fraction<u8> unary all", 'c16::unary<unsigned char>("fraction<u8> unary all", 0);'))
    for tc, tn in TYPES[1:4] + TYPES[5:]:
        r = 64 if tier == "quick" else 200
        ks.append(("fraction<%s> unary range" % tn, 'c16::unary<%s>("fraction<%s> unary range", %d);' % (tc, tn, r)))
    return ks


def run(tier, seed, only=None):
    res = core.Result("C16", tier, seed)
    ks = kernels(tier, seed)
    if only:
        ks = [k for k in ks if k[0] == only["kernel"]]
    cfgs = ["g-san"] if tier == "quick" else ["g-san", "c-san"]
    if only:
        cfgs = [only["config"]]
    env = {"VERIF_SEED": str(seed)}
    jobs = []
    for cfg in cfgs:
        for i, sh in enumerate(core.shard(ks, len(ks))):
            jobs.append(core.Job("c16-%d" % i, core.tu("c16.h", sh), cfg, env=env, timeout=3600))
    core.build_and_run(jobs, "C16")
    for j in jobs:
        res.absorb(j)
        if j.died:
            res.inconclusive.append("binary %s[%s] died outside a guarded case (rc=%s)" % (j.name, j.config, j.rc))
    if not only and res.classes.get("one_negative_denominator", 0) < 1000:
        res.inconclusive.append("too few cases with exactly one negative denominator")
    return res.finish(RULE, assumptions=["exact rational oracle on 256-bit integers", "conversion to floating point compared with (double)n/(double)d computed by the harness"])
