"""C15 - literals, parsing and constant-driven deduction yield exactly the written value (engine E-parse)."""
import os
import random
import re
import subprocess
from fractions import Fraction as Fr

from .. import core

RULE = ("(i) run-time cnl::_impl::parse<T> (T = int32/int64/__int128/wide_integer<200>/wide_integer<1000>) on generated tokens: every length 1..capacity in bases 2/8/10/16, +- sign, digit separators in every position class (incl. right after a prefix), "
        "upper/lower-case hex, all-max-digit / 1000..0 / random patterns, lengths around the chunk strides; results read from the storage and compared with python int(). (ii) literal operators _c, _wide, _cnl, _cnl2 in generated translation units "
        "(a literal that does not compile is itself an outcome: the diagnostics are mapped back to tokens, the token recorded, removed and the unit rebuilt); the deduced type facts (digits, exponent, radix, numeric_limits) and the value are printed at run time "
        "and judged offline with python Fractions: value == token, lowest <= value <= max of the deduced type, _cnl/_cnl2: digits == used bits of the significand and no trailing radix factor. (iii) factories make_elastic_integer, make_elastic_scaled_integer, "
        "make_static_integer, make_static_number, make_scaled_integer and CTAD on constants over a boundary-rich set (0, +-1, +-2^k, 2^k+-1, alternating patterns): exact value, digits == used digits, exponent == trailing zero bits where documented. "
        "distinct_nontrivial counts distinct tokens/constants with more than one digit.")

DIG = {2: "01", 8: "01234567", 10: "0123456789", 16: "0123456789abcdefABCDEF"}
PFX = {2: "0b", 8: "0", 10: "", 16: "0x"}


def tok_value(tok):
    s = tok.replace("'", "")
    neg = s.startswith("-")
    s = s.lstrip("+-")
    if s[:2] in ("0x", "0X"):
        v = int(s[2:], 16)
    elif s[:2] in ("0b", "0B"):
        v = int(s[2:], 2)
    elif len(s) > 1 and s[0] == "0" and "." not in s:
        v = int(s[1:], 8)
    else:
        v = int(s)
    return -v if neg else v


def gen_tokens(rng, bits, n_per_len, signs=True):
    out = []
    def sep(s, mode):
        if len(s) < 2 or mode == 0:
            return s
        o = s[0]
        for c in s[1:]:
            if rng.random() < (0.3 if mode == 1 else 0.08):
                o += "'"
            o += c
        return o
    for base in (2, 8, 10, 16):
        maxv = (1 << bits) - 1
        nd = 1
        while True:
            if int(DIG[base][1] + DIG[base][0] * (nd - 1), base) > maxv:
                break
            pats = [DIG[base][1] + DIG[base][0] * (nd - 1), (DIG[base][-1] if base != 16 else "f") * nd, DIG[base][1] + (DIG[base][-1] if base != 16 else "F") * (nd - 1)]
            for _ in range(n_per_len):
                pats.append(rng.choice(DIG[base][1:]) + "".join(rng.choice(DIG[base]) for _ in range(nd - 1)))
            for i, body in enumerate(pats):
                if int(body, base) > maxv:
                    continue
                body = sep(body, i % 3)
                t = PFX[base] + body
                if i % 7 == 3 and base != 10:
                    t = PFX[base] + "'" + body if base == 8 else t  # separator right after the octal prefix is valid C++
                sg = rng.choice(["", "", "-", "+"]) if signs else ""
                out.append(sg + t)
            nd += 1 if nd < 24 or nd % 3 == 0 or bits < 300 else 2
    out += ["0", "00", "-0", "0'0", "0x0", "0b0", "0'17", "0x'ff" if False else "0xff", "1'000'000", "0b1'0000'0000"]
    return out


def literal_tokens(rng, tier):
    L = []
    n9 = list(range(1, 41))
    for nd in n9:
        if nd <= 38:
            L.append(("9" * nd, "_c"))
            L.append(("1" + "0" * (nd - 1), "_c"))
    for nd in (1, 2, 8, 15, 16, 17, 31):
        L.append(("0x" + "f" * nd, "_c")); L.append(("0X1" + "0" * (nd - 1), "_c"))
    for nd in (1, 7, 8, 31, 32, 63, 64, 65, 126):
        L.append(("0b" + "1" * nd, "_c"))
    for nd in (1, 2, 21, 22, 42):
        L.append(("0" + "7" * nd, "_c"))
    L += [("1'000'000", "_c"), ("0", "_c"), ("0'17", "_c"), ("0x7fff'ffff", "_c"), ("0b1010'1010", "_c")]
    wl = list(range(1, 60)) + [77, 78, 100, 154, 155, 300, 616] if tier == "thorough" else list(range(1, 42)) + [55, 100, 155, 300]
    for nd in wl:
        L.append(("9" * nd, "_wide")); L.append(("1" + "0" * (nd - 1), "_wide")); L.append(("4" + "9" * (nd - 1), "_wide")); L.append(("5" + "0" * (nd - 1), "_wide"))
    for nd in (1, 15, 16, 30, 31, 45, 100, 256, 480):  # (512 hex digits need 2049 digits incl. sign: not a width uintwide_t supports)
        L.append(("0x" + "f" * nd, "_wide")); L.append(("0x8" + "0" * (nd - 1), "_wide")); L.append(("0x7" + "f" * (nd - 1), "_wide"))
    for nd in (63, 64, 126, 127, 128, 200):
        L.append(("0b" + "1" * nd, "_wide"))
    for nd in (21, 22, 42, 43, 100):
        L.append(("0" + "7" * nd, "_wide")); L.append(("03" + "7" * (nd - 1), "_wide")); L.append(("04" + "0" * (nd - 1), "_wide"))
    L += [("1'000'000'000'000'000'000'000", "_wide"), ("0'17", "_wide")]
    for t in ["0", "1", "2", "10", "100", "1000", "1024", "65536", "4294967296", "18446744073709551615", "1.5", "0.5", ".5", "0.25", "0.125", "1.25", "10.0", "10.5", "1.0", "2.50", "0.1", "0.3", "3.14159", "123.456", "0.001",
              "100.0", "1000000.5", "0.0009765625", "12345678901234567.5", "0.000000000000000001", "999999999999999999", "1234567890123456789", "0x10", "0b101", "017", "1'000.5", "0'17", "5.", "20.00", "300", "1200.0", "0.12'5", "3.141'592'653", "1'0.2'5", "12.5'0", "0.000'001", "1'234.567'89"]:
        L.append((t, "_cnl"))
    for i in range(40 if tier == "quick" else 400):
        ip = rng.choice(["0", "1", "7", "12", "999", str(rng.randrange(10 ** rng.randrange(1, 18)))])
        fd = rng.randrange(0, 19)
        fp = "".join(rng.choice("0123456789") for _ in range(fd))
        L.append((ip + ("." + fp if fd else ""), "_cnl"))
    for t in ["0", "1", "2", "3", "4", "8", "10", "1024", "65536", "1.5", "0.5", "0.25", "0.125", "1.25", "10.0", "10.5", "1.0", "2.50", "0.375", "0.0009765625", "3.0625", "0x10", "0b1000", "6.0", "96", "0.75", "2.5'0", "1'024.5", "0.12'5", "1'0.2'5"]:
        L.append((t, "_cnl2"))
    for i in range(30 if tier == "quick" else 300):
        j = rng.randrange(0, 20)
        k = rng.randrange(1, 1 << rng.randrange(1, 40))
        v = Fr(k, 1 << j)
        s = str(v.numerator // v.denominator)
        fr = v - v.numerator // v.denominator
        f = ""
        while fr:
            fr *= 10
            f += str(fr.numerator // fr.denominator)
            fr -= fr.numerator // fr.denominator
        L.append((s + ("." + f if f else ""), "_cnl2"))
    seen = set()
    return [x for x in L if not (x in seen or seen.add(x))]


def constants(rng, tier):
    vs = {0, 1, -1, 2, -2, 3, 5, 96, -96, 1000, 1024, 65535, 65536, 0x5555, 0xAAAA, 0x55555555, 0xAAAAAAAA, 0x5555555555555555}
    for k in range(1, 63):
        if tier == "thorough" or k % 3 == 0 or k in (7, 8, 15, 16, 31, 32, 62):
            vs |= {1 << k, (1 << k) - 1, (1 << k) + 1, -(1 << k), -((1 << k) - 1), 3 << (k - 1) if k > 1 else 3}
    vs |= {(1 << 63) - 1, -(1 << 63) + 1}
    return sorted(vs)


FACT = [("make_elastic_integer", "cnl::make_elastic_integer(cnl::constant<%sLL>{})"), ("make_elastic_scaled_integer", "cnl::make_elastic_scaled_integer(cnl::constant<%sLL>{})"),
        ("make_static_integer", "cnl::make_static_integer(cnl::constant<%sLL>{})"), ("make_static_number", "cnl::make_static_number(cnl::constant<%sLL>{})"),
        ("make_scaled_integer", "cnl::make_scaled_integer(cnl::constant<%sLL>{})"),
        ("make_elastic_integer_value", "cnl::make_elastic_integer(%sLL)"), ("make_static_integer_value", "cnl::make_static_integer(%sLL)")]


def used_bits(v):
    return abs(v).bit_length() if v >= 0 else (-v - 1).bit_length() if False else abs(v).bit_length()


def build_literal_tu(items):
    lines = ['#include "harness/c15.h"', "using namespace cnl::literals;", "int main() {", "    vf::install();"]
    first = len(lines) + 1
    for i, (expr, kind) in items:
        lines.append('    { vf::Outcome o = vf::guarded([&] { auto v = %s; c15::report(%d, "%s", v); }); if (o.kind != vf::VALUE) printf("L %d %s event=%%s:%%s\\n", vf::kind_name(o.kind), o.msg); }' % (expr, i, kind, i, kind))
    lines += ["    vf::finish();", "    return 0;", "}"]
    return "\n".join(lines) + "\n", first


def run(tier, seed, only=None):
    res = core.Result("C15", tier, seed)
    rng = random.Random("C15-%d" % seed)
    # ---- (i) run-time parse
    ptypes = [("long", "i64", 63), ("vf::i128", "i128", 127), ("cnl::wide_integer<200,int>", "wide200", 200), ("int", "i32", 31), ("short", "i16", 15), ("cnl::wide_integer<500,int>", "wide500", 500)] \
        + ([("cnl::wide_integer<1000,int>", "wide1000", 1000), ("signed char", "i8", 7)] if tier == "thorough" else [])
    parse_jobs = []
    tokmap = {}
    for kid, (tc, tn, bits) in enumerate(ptypes):
        toks = gen_tokens(rng, bits, 10 if tier == "quick" else 40)
        tokmap[kid] = toks
        arr = ",\n".join('"%s"' % t for t in toks)
        src = '#include "harness/c15.h"\nstatic char const* toks[] = {\n%s\n};\nint main() { vf::install(); c15::parse_run<%s>("parse<%s>", %d, toks, %d); vf::finish(); }\n' % (arr, tc, tn, kid, len(toks))
        # (parse<T> for T narrower than long does not compile under Clang 14: `Sum{sum * 1'000'000'000'000'000'000}` in parse.h is a narrowing
        #  conversion in a braced initializer, which GCC only warns about - a portability defect of the pinned tree, not a value; such types run under GCC only)
        for cfg in (["g-san"] + (["c-san"] if bits >= 63 else []) if tier == "thorough" else ["g-san"]):
            j = core.Job("c15p-%d" % kid, src, cfg, env={"VERIF_SEED": str(seed)}, extra_flags=["-DCNL_USE_IOSTREAMS=1"], timeout=3600)
            j.keep_raw = True
            j.kid = kid
            parse_jobs.append(j)
    # ---- (ii)+(iii) literals and factories: compile, dropping the statements the compiler rejects
    lits = literal_tokens(rng, tier)
    items = [("%s%s" % (t, s), s) for t, s in lits]
    consts = constants(rng, tier)
    fact_items = []
    for v in consts:
        for name, fmt in FACT:
            if "static" in name and abs(v) >= (1 << 62):
                pass
            fact_items.append((fmt % str(v).replace("-", "-"), name, v))
    all_items = [(i, it) for i, it in enumerate(items)] + [(len(items) + i, (e, n)) for i, (e, n, v) in enumerate(fact_items)]
    meta = {i: ("lit", lits[i]) for i in range(len(items))}
    for i, (e, n, v) in enumerate(fact_items):
        meta[len(items) + i] = ("fact", (n, v))
    nshards = 16
    shards = core.shard(all_items, nshards)
    lit_jobs = []
    no_compile = []

    def build_shard(arg):
        si, sh = arg
        cur = list(sh)
        dropped = []
        for attempt in range(8):
            src, first = build_literal_tu([(i, it) for i, it in cur])
            j = core.Job("c15l-%d" % si, src, "g-ub", env={"VERIF_SEED": str(seed)}, extra_flags=["-DCNL_USE_IOSTREAMS=1", "-fmax-errors=0"], allow_fail=True, timeout=3600)
            core.build(j)
            if j.build_ok:
                j.keep_raw = True
                return j, dropped
            srcname = os.path.join(core.CACHE, "src", "%s-%s.cpp" % (j.name, j.key()))
            bad = {}
            for m in re.finditer(re.escape(srcname) + r":(\d+):\d+:\s+(error: .*|.*required from here)", j.build_log):
                ln = int(m.group(1))
                if first <= ln < first + len(cur):
                    bad.setdefault(ln - first, "")
            m = re.search(r"error: (.*)", j.build_log)
            first_err = m.group(1)[:120] if m else "?"
            if not bad:
                raise core.Inconclusive("literal TU failed to compile without naming a literal: " + j.build_log[:400])
            for k in sorted(bad, reverse=True):
                dropped.append((cur[k][0], first_err))
                del cur[k]
        raise core.Inconclusive("literal TU did not converge")

    import concurrent.futures as cf
    with cf.ThreadPoolExecutor(core.NCPU) as ex:
        for j, dropped in ex.map(build_shard, enumerate(shards)):
            lit_jobs.append(j)
            no_compile += dropped
    jobs = parse_jobs + lit_jobs
    core.build_and_run(jobs, "C15")
    # ---- judge
    for j in parse_jobs:
        res.absorb(j)
        kd = {r["id"]: r for r in j.records if r.get("t") == "kd"}
        viol = {}
        judged = nt = ood = 0
        samples = []
        for line in j.raw:
            p = line.split(" ", 4)
            if p[0] != "R":
                continue
            kid, ti, kind = int(p[1]), int(p[2]), p[3]
            tok = tokmap[kid][ti]
            bits = kd[kid]["bits"]
            v = tok_value(tok)
            judged += 1
            if len(tok.strip("+-")) > 1:
                nt += 1
            want = "%0*x" % (bits // 4, v % (1 << bits))
            if kind != "VALUE" or p[4] != want:
                cls = "parse:" + (kind if kind != "VALUE" else "wrong_value") + (":" + p[4].replace(" ", "_") if kind == "CNL_ABORT" else "")
                n, ws = viol.get(cls, (0, []))
                if len(ws) < 4:
                    ws.append({"in": tok, "exp": str(v), "obs": kind + " " + p[4]})
                viol[cls] = (n + 1, ws)
            elif len(samples) < 2 and "'" in tok:
                samples.append({"inputs": tok, "expected": str(v), "observed": p[4]})
        for kid in kd:
            res.add_tally(j, kd[kid]["k"], judged, ood, nt, {}, {}, samples, viol)
    viol = {}
    judged = nt = 0
    samples = []
    classes = {}
    def V(cls, w):
        n, ws = viol.get(cls, (0, []))
        if len(ws) < 4:
            ws.append(w)
        viol[cls] = (n + 1, ws)
    def parse_val(s):
        if s.startswith("0x"):
            sg = s.endswith("s")
            h = s[2:-1]
            u = int(h, 16)
            if sg and u >> (len(h) * 4 - 1):
                u -= 1 << (len(h) * 4)
            return u
        return int(s)
    for idx, err in no_compile:
        kind, m = meta[idx]
        judged += 1
        nt += 1
        if kind == "lit":
            V("well_formed_token_does_not_compile:" + m[1], {"in": m[0] + m[1], "exp": "compiles and yields the written value", "obs": "NO_COMPILE: " + err})
        else:
            V("factory_does_not_compile:" + m[0], {"in": "%s(%d)" % m, "exp": "compiles", "obs": "NO_COMPILE: " + err})
    for j in lit_jobs:
        res.absorb(j)
        for line in j.raw:
            p = line.split()
            if not p or p[0] != "L":
                continue
            idx = int(p[1])
            kind, m = meta[idx]
            judged += 1
            nt += 1
            if len(p) > 3 and p[3].startswith("event="):
                V(("literal_event:" + m[1] if kind == "lit" else "factory_event:" + m[0]) + ":" + p[3][6:].split(":")[0], {"in": (m[0] + m[1]) if kind == "lit" else "%s(%d)" % m, "exp": "a value", "obs": " ".join(p[3:])})
                continue
            f = dict(x.split("=", 1) for x in p[3:])
            digits, exp, radix = int(f["digits"]), int(f["exp"]), int(f["radix"])
            val = parse_val(f["value"])
            if kind == "lit":
                tok, suf = m
                t = tok.replace("'", "")
                if "." in t:
                    ip, fp = t.split(".")
                    want = Fr(int((ip or "0") + fp), 10 ** len(fp)) if (ip + fp) else Fr(0)
                else:
                    want = Fr(tok_value(t))
                got = Fr(val) * Fr(radix) ** exp
                w = {"in": tok + suf, "exp": str(want), "obs": "rep=%d exp=%d radix=%d digits=%d" % (val, exp, radix, digits)}
                if got != want:
                    V("literal_value_wrong:" + suf, w)
                    continue
                if f["hi"] != "-" and not (parse_val(f["lo"]) <= val <= parse_val(f["hi"])):
                    V("literal_type_too_narrow:" + suf, dict(w, exp="value within numeric_limits of the deduced type (max %s)" % f["hi"]))
                    continue
                if suf in ("_cnl", "_cnl2"):
                    if val != 0 and (abs(val).bit_length() != digits or val % radix == 0):
                        V("literal_digits_or_exponent_not_minimal:" + suf, dict(w, exp="digits == used bits of the significand, no trailing radix factor"))
                        continue
                classes["literal_ok" + suf] = classes.get("literal_ok" + suf, 0) + 1
                if len(samples) < 3 and suf != "_c":
                    samples.append({"inputs": tok + suf, "expected": str(want), "observed": w["obs"]})
            else:
                name, v = m
                got = Fr(val) * Fr(radix) ** exp
                w = {"in": "%s(%d)" % (name, v), "exp": str(v), "obs": "rep=%d exp=%d digits=%d" % (val, exp, digits)}
                if got != v:
                    V("factory_value_wrong:" + name, w)
                    continue
                if f["hi"] != "-" and not (parse_val(f["lo"]) <= val <= parse_val(f["hi"])):
                    V("factory_type_too_narrow:" + name, w)
                    continue
                tz = (v & -v).bit_length() - 1 if v else 0
                ub = abs(v).bit_length()
                if name in ("make_elastic_integer", "make_static_integer") and v != 0 and digits != ub:
                    V("factory_digits_not_used_digits:" + name, dict(w, exp="digits == %d" % ub))
                    continue
                if name in ("make_elastic_scaled_integer", "make_static_number") and v != 0 and (exp != tz or digits != ub - tz):
                    V("factory_exponent_or_digits:" + name, dict(w, exp="exponent == %d, digits == %d" % (tz, ub - tz)))
                    continue
                if name == "make_scaled_integer" and v != 0 and exp != tz:
                    V("factory_exponent:" + name, dict(w, exp="exponent == %d" % tz))
                    continue
                classes["factory_ok"] = classes.get("factory_ok", 0) + 1
    if lit_jobs:
        res.add_tally(lit_jobs[0], "literals+factories", judged, 0, nt, {}, classes, samples, viol)
    for j in jobs:
        if j.died:
            res.inconclusive.append("binary %s[%s] died outside a guarded case (rc=%s)" % (j.name, j.config, j.rc))
    res.extra["literal_tokens"] = len(lits)
    res.extra["factory_cases"] = len(fact_items)
    res.extra["tokens_not_compiling"] = len(no_compile)
    return res.finish(RULE, assumptions=["the part of literal processing that runs inside the compiler (scan, width estimate, type deduction) is observed through the compiler's constant evaluator and its diagnostics plus the run-time read-out of the resulting type facts",
                                         "domain: parse<T> tokens with |value| <= max(T); _c/_cnl/_cnl2 significands <= 2^127-1; _cnl2 fractions binary-representable; no floating exponents / hex floats",
                                         "offline checker: python int / Fraction"])
