"""C11 - static_integer and static_number are never silently wrong (engine E-shadow: lock-step shadow execution of generated chains)."""
import json
import os
import random
import sys

from .. import core
from . import big

# static_integer / static_number products and quotients beyond the 256-bit lock-step oracle (judged offline): Karatsuba-sized products, multi-limb Knuth divisions
BIG = [("big static_integer<2100> static_integer<2100> [+-*<]", "cnl::static_integer<2100>", "cnl::static_integer<2100>", "+-*<", 1),
       ("big static_integer<600> static_integer<400> [/]", "cnl::static_integer<600>", "cnl::static_integer<400>", "/", 1),
       ("big static_integer<300,nearest,saturated,int8> static_integer<200,..int8> [*/]", "cnl::static_integer<300, cnl::nearest_rounding_tag, cnl::saturated_overflow_tag, signed char>",
        "cnl::static_integer<200, cnl::nearest_rounding_tag, cnl::saturated_overflow_tag, signed char>", "*/", 1),
       ("big static_number<2100,-30> static_number<2100,-3> [*<]", "cnl::static_number<2100, -30>", "cnl::static_number<2100, -3>", "*<", 1),
       ("big static_integer<700,native,undefined,int8> static_integer<700,..> [*/%]", "cnl::static_integer<700, cnl::native_rounding_tag, cnl::undefined_overflow_tag, signed char>",
        "cnl::static_integer<700, cnl::native_rounding_tag, cnl::undefined_overflow_tag, signed char>", "*/", 0)]

PATH = os.path.join(core.VERIF, "matrix", "chains.json")
ROUND = ["cnl::native_rounding_tag", "cnl::nearest_rounding_tag", "cnl::tie_to_pos_inf_rounding_tag", "cnl::neg_inf_rounding_tag"]
OVER = ["cnl::saturated_overflow_tag", "cnl::_impl::throwing_overflow_tag", "cnl::trapping_overflow_tag"]
ONAME = ["saturated", "throwing", "trapping"]
RNAME = ["native", "nearest", "tie_to_pos_inf", "neg_inf"]
NARROW = [("int", "i32"), ("signed char", "i8"), ("short", "i16"), ("std::int64_t", "i64")]
RULE = ("program = a generated expression chain (2-3 leaves, 2-6 steps out of + - * / unary-, comparison, conversion to a narrower declared type) over static_integer / static_number leaves with digits in {1..8,15,16,31,32,63,64,100}, exponents in [-40,40], "
        "the four rounding tags, saturated/throwing/trapping overflow tags and narrowest types int8/int16/int/int64, drawn from the frozen instantiable universe matrix/chains.json (fixed core + VERIF_SEED sample). Leaves are injected layer by layer with from_rep and "
        "take the declared range +-(2^D-1): boundary lattice + seeded random, full product when small, otherwise a systematic sweep of one operand against random partners. Each step is executed by CNL and, in lock-step, on exact rationals (256-bit): the result must "
        "equal the exact value (division and narrowing conversion: the exact value rounded by the type's rounding mode at the result's resolution), or the tag's overflow signal must occur exactly when the result leaves the result type's range (saturated: the clamped bound). "
        "Spurious signals are counted, not judged (C06/C09). distinct_nontrivial counts executed chains in which some step rounded, overflowed or was signalled.")


def typ(kind, d, e, r, o, n):
    if kind == "si":
        return "cnl::static_integer<%d,%s,%s,%s>" % (d, ROUND[r], OVER[o], NARROW[n][0])
    return "cnl::static_number<%d,%d,%s,%s,%s>" % (d, e, ROUND[r], OVER[o], NARROW[n][0])


def gen_chain(rng, idx):
    r = rng.randrange(4); o = rng.randrange(3); n = rng.choice([0, 0, 1, 2, 3])
    kind = rng.choice(["si", "sn", "sn"])
    nl = rng.choice([2, 2, 3])
    digits = [1, 2, 3, 4, 5, 6, 7, 8, 15, 16, 31, 32, 63, 64, 100]
    leaves = []
    for i in range(nl):
        d = rng.choice(digits if rng.random() < 0.8 else [7, 8, 15, 16])
        e = rng.choice([-40, -20, -12, -8, -4, -2, -1, 0, 0, 1, 3, 6, 12, 40]) if kind == "sn" else 0
        leaves.append((d, e))
    vars_ = [("v%d" % i, leaves[i][0]) for i in range(nl)]
    steps = []
    nsteps = rng.randrange(2, 7)
    desc_ops = []
    for s in range(nsteps):
        op = rng.choice(["add", "sub", "mul", "div", "neg", "conv", "less", "add", "mul"])
        a = rng.choice(vars_)
        b = rng.choice(vars_)
        name = "v%d" % len(vars_)
        if op in ("add", "sub"):
            nd = max(a[1], b[1]) + 1
        elif op == "mul":
            nd = a[1] + b[1]
        else:
            nd = a[1]
        if nd > 220:
            continue
        if op in ("add", "sub", "mul", "div"):
            steps.append("auto %s = c11::%s(%s, %s);" % (name, op, a[0], b[0]))
            vars_.append((name, nd))
        elif op == "neg":
            steps.append("auto %s = c11::neg(%s);" % (name, a[0]))
            vars_.append((name, nd))
        elif op == "conv":
            td = rng.choice([1, 2, 3, 7, 8, 9, 15, 16, 24, 31])
            te = rng.choice([-12, -8, -4, -1, 0, 1, 3, 6]) if kind == "sn" else 0
            steps.append("auto %s = c11::conv<%s>(%s);" % (name, typ(kind, td, te, r, o, n), a[0]))
            vars_.append((name, td))
        else:
            steps.append("(void)c11::less(%s, %s);" % (a[0], b[0]))
        desc_ops.append(op)
    if not steps:
        return None
    tdefs = " ".join("using T%d = %s;" % (i, typ(kind, d, e, r, o, n)) for i, (d, e) in enumerate(leaves))
    ls = ", ".join("c11::leaves<T%d>(rng, NR)" % i for i in range(nl))
    mk = " ".join("auto v%d = c11::deep<T%d>(x[%d]);" % (i, i, i) for i in range(nl))
    desc = "chain%04d %s %s,%s,%s leaves=%s ops=%s" % (idx, kind, RNAME[r], ONAME[o], NARROW[n][1], "/".join("%d:%d" % l for l in leaves), ",".join(desc_ops))
    stmt = ('{ %s vf::Rng rng(vf::mix(vf::env_seed(), vf::hash_str("%s"))); long NR = vf::env_long("VERIF_NRAND", 12); std::vector<std::vector<vf::X>> ls{%s}; '
            'c11::run_chain("%s", c11::Tags{%d, %d}, ls, [&](vf::X const* x) { %s %s }); }') % (tdefs, desc, ls, desc, r, o, mk, " ".join(steps))
    return desc, stmt


def shift_chains():
    """hand-written chains around run-time shifts (the result type of << cannot widen): x << c, then unary -, * -1, / -1, + x; x >> c"""
    out = []
    specs = [("si", 31, 0, 2), ("si", 63, 0, 2), ("si", 15, 0, 1), ("si", 7, 0, 0), ("si", 20, 0, 2), ("sn", 31, -8, 2), ("sn", 15, 3, 1), ("si", 100, 0, 2)]
    i = 0
    for kind, d, e, n in specs:
        for r, o in ((1, 0), (1, 1), (1, 2), (0, 0), (3, 1)):
            if i % 5 not in (0, 1, 2) and d not in (31, 63):
                i += 1
                continue
            i += 1
            t = typ(kind, d, e, r, o, n)
            desc = "shiftchain %s<%d,%d> %s,%s,%s" % (kind, d, e, RNAME[r], ONAME[o], NARROW[n][1])
            body = ("auto v0 = c11::deep<T0>(x[0]); int c = (int)x[1].mag128(); auto s = c11::lsh(v0, c); auto n1 = c11::neg(s); auto m1 = c11::mul(s, T0{-1}); "
                    "auto q1 = c11::div(s, T0{-1}); auto a1 = c11::add(s, v0); auto r1 = c11::rsh(v0, c); auto r2 = c11::rsh(s, c);")
            stmt = ('{ using T0 = %s; vf::Rng rng(vf::mix(vf::env_seed(), vf::hash_str("%s"))); long NR = vf::env_long("VERIF_NRAND", 12); '
                    'std::vector<vf::X> cs; for (int c = 0; c <= %d; ++c) cs.push_back(vf::X::from_i(c)); std::vector<std::vector<vf::X>> ls{c11::leaves<T0>(rng, NR), cs}; '
                    'c11::run_chain("%s", c11::Tags{%d, %d}, ls, [&](vf::X const* x) { %s }); }') % (t, desc, d + 2, desc, r, o, body)
            out.append((desc, stmt))
    # ++ / -- in all four forms on static_integer (every leaf incl. the limits)
    i = 0
    for d, n in [(3, 2), (7, 0), (15, 1), (31, 2), (63, 2), (20, 2), (8, 1)]:
        for r, o in ((1, 0), (1, 1), (1, 2), (0, i % 3)):
            i += 1
            t = typ("si", d, 0, r, o, n)
            desc = "incdec si<%d> %s,%s,%s" % (d, RNAME[r], ONAME[o], NARROW[n][1])
            body = "auto v0 = c11::deep<T0>(x[0]); int f = (int)x[1].mag128(); auto r0 = c11::incdec(v0, f); auto r1 = c11::incdec(r0, f); (void)r1;"
            stmt = ('{ using T0 = %s; vf::Rng rng(vf::mix(vf::env_seed(), vf::hash_str("%s"))); long NR = vf::env_long("VERIF_NRAND", 12); '
                    'std::vector<vf::X> fs; for (int f = 0; f < 4; ++f) fs.push_back(vf::X::from_i(f)); std::vector<std::vector<vf::X>> ls{c11::leaves<T0>(rng, NR), fs}; '
                    'c11::run_chain("%s", c11::Tags{%d, %d}, ls, [&](vf::X const* x) { %s }); }') % (t, desc, desc, r, o, body)
            out.append((desc, stmt))
    # construction from built-in integers (then unary minus and x + x)
    i = 0
    for kind, d, e, n, bt, bn in [("si", 31, 0, 2, "int", "i32"), ("si", 63, 0, 2, "long", "i64"), ("si", 7, 0, 0, "signed char", "i8"), ("si", 15, 0, 1, "short", "i16"), ("si", 20, 0, 2, "int", "i32"),
                                   ("sn", 8, 2, 2, "int", "i32"), ("sn", 8, 2, 2, "short", "i16"), ("sn", 20, -4, 2, "long", "i64"), ("sn", 31, 1, 2, "int", "i32"), ("sn", 15, -3, 1, "unsigned short", "u16"), ("sn", 12, 3, 2, "unsigned", "u32")]:
        for r in (1, 2, 3, 0):
            o = i % 3
            i += 1
            if i % 2 and d not in (31, 8):
                continue
            t = typ(kind, d, e, r, o, n)
            desc = "ctor %s<%d,%d> %s,%s,%s from %s" % (kind, d, e, RNAME[r], ONAME[o], NARROW[n][1], bn)
            out.append((desc, 'c11::ctor_kernel<%s, %s>("%s", c11::Tags{%d, %d});' % (t, bt, desc, r, o)))
    # two leaves of the same full-width type, divided both ways (every pairing of adjacent limits is enumerated by run_chain)
    i = 0
    for kind, d, e, n in [("si", 31, 0, 2), ("si", 63, 0, 2), ("si", 15, 0, 1), ("si", 7, 0, 0), ("sn", 31, -8, 2), ("sn", 63, -20, 2)]:
        for r in (1, 2, 3, 0):
            o = i % 3
            i += 1
            t = typ(kind, d, e, r, o, n)
            desc = "divchain %s<%d,%d> %s,%s,%s" % (kind, d, e, RNAME[r], ONAME[o], NARROW[n][1])
            body = "auto v0 = c11::deep<T0>(x[0]); auto v1 = c11::deep<T0>(x[1]); auto q0 = c11::div(v0, v1); auto q1 = c11::div(v1, v0); auto n0 = c11::neg(q0); (void)c11::less(q0, q1);"
            stmt = ('{ using T0 = %s; vf::Rng rng(vf::mix(vf::env_seed(), vf::hash_str("%s"))); long NR = vf::env_long("VERIF_NRAND", 12); '
                    'std::vector<std::vector<vf::X>> ls{c11::leaves<T0>(rng, NR), c11::leaves<T0>(rng, NR)}; '
                    'c11::run_chain("%s", c11::Tags{%d, %d}, ls, [&](vf::X const* x) { %s }); }') % (t, desc, desc, r, o, body)
            out.append((desc, stmt))
    return out


def candidates(n=1300):
    rng = random.Random(1111)
    out = []
    i = 0
    while len(out) < n:
        c = gen_chain(rng, i)
        i += 1
        if c:
            out.append(c)
    return out


def load():
    with open(PATH) as f:
        return json.load(f)


def run(tier, seed, only=None):
    res = core.Result("C11", tier, seed)
    uni = load()["kernels"]
    rng = random.Random("C11-%d" % seed)
    ncore = 100
    n = 300 if tier == "quick" else len(uni)
    ks = uni[:ncore] + rng.sample(uni[ncore:], max(0, min(len(uni) - ncore, n - ncore)))
    if only:
        ks = [k for k in uni if k["desc"] == only["kernel"]]
    cfgs = ["g-san"] if tier == "quick" else ["g-san", "c-san", "g-port"]
    if only:
        cfgs = [only["config"]]
    env = {"VERIF_SEED": str(seed), "VERIF_NRAND": "12" if tier == "quick" else "40", "VERIF_CHAIN_CASES": "3000" if tier == "quick" else "30000"}
    stm = [(k["desc"], k["stmt"]) for k in ks]
    sc = shift_chains()
    stm += [s for s in sc if s[0] == only["kernel"]] if only else sc
    jobs = []
    for cfg in cfgs:
        for i, sh in enumerate(core.shard(stm, 1 if only else (48 if tier == "quick" else 96))):
            jobs.append(core.Job("c11-%d" % i, core.tu("c11.h", sh), cfg, env=env, timeout=7200))
    jobs += big.make_jobs("c11", BIG, tier, seed, cfgs, only)
    core.build_and_run(jobs, "C11")
    for j in jobs:
        res.absorb(j)
        if getattr(j, "post", None):
            j.post(res, j)
        if j.died:
            res.inconclusive.append("binary %s[%s] died outside a guarded case (rc=%s)" % (j.name, j.config, j.rc))
    res.extra["chains_generated"] = len(ks)
    res.extra["universe"] = {"instantiable": load()["instantiable"], "not_instantiable_candidates": load()["not_instantiable_count"]}
    return res.finish(RULE + big.RULE, assumptions=["exact shadow arithmetic on 256-bit rationals (denominators are powers of two except inside a division step)", "division by zero ends a chain (outside the domain)",
                                         "spurious overflow signals are not violations of this property; they are counted in class_histogram"])


if __name__ == "__main__":
    from .. import probe
    c = candidates()
    print("probing %d candidates" % len(c), file=sys.stderr)
    ok, bad = probe.probe("c11.h", c, batch=4)
    okset = set(d for d, s in ok)
    kernels = [{"desc": d, "stmt": s} for d, s in c if d in okset]
    random.Random(7).shuffle(kernels)
    with open(PATH, "w") as f:
        json.dump({"probed_against_tree": core.tree_hash()[:16], "instantiable": len(kernels), "not_instantiable_count": len(bad), "not_instantiable": sorted(d for d, s in bad)[:200], "kernels": kernels}, f, indent=0)
    print("instantiable %d, not instantiable %d" % (len(kernels), len(bad)))
