"""C14 - text output denotes the value (shares engine E-text with C13)."""
from . import c13


def run(tier, seed, only=None):
    res = c13.run_both("C14", tier, seed, only)
    return res.finish(c13.RULE14, assumptions=["offline checker: python Fractions and an independent numeral grammar (accepts '.125' and a trailing '.')",
                                               "eps_sig is the 64-bit significand precision limit of the statement, derived from descale (DESIGN C14); it only widens what is accepted",
                                               "exactness clause demanded only when the buffer holds the plain fixed form plus one character"])
