"""C01 / C02 / C03(scaled part) - scaled_integer arithmetic, division contract, comparisons (engine E-scaled)."""
from .. import core
from . import big, scaled_common

# scaled_integer over Karatsuba-sized representations (beyond the 256-bit oracle): judged offline, see harness/big.h
BIG = [("big scaled<wide<1087,i8>,-40> [+-*]", "cnl::scaled_integer<cnl::wide_integer<1087,signed char>,cnl::power<-40>>", "cnl::scaled_integer<cnl::wide_integer<1087,signed char>,cnl::power<-40>>", "+-*", 0),
       ("big scaled<elastic<2100,w32>,-12> * scaled<elastic<2100,w32>,-7>", "cnl::scaled_integer<cnl::elastic_integer<2100,cnl::wide_integer<31,int>>,cnl::power<-12>>", "cnl::scaled_integer<cnl::elastic_integer<2100,cnl::wide_integer<31,int>>,cnl::power<-7>>", "*", 0),
       ("big scaled<wide<4351,i32>,-100> [+-*]", "cnl::scaled_integer<cnl::wide_integer<4351,int>,cnl::power<-100>>", "cnl::scaled_integer<cnl::wide_integer<4351,int>,cnl::power<-100>>", "+-*", 0)]

RULES = {
 "C01": "kernel = (operator in + - * unary-, Lhs rep, Lhs exponent, Rhs rep, Rhs exponent, radix 2|10, plain-integer operand flag), drawn from the frozen instantiable universe (matrix/scaled.json: fixed core + VERIF_SEED sample). ",
 "C02": "kernel = (/ | % | quotient(), Lhs rep/exponent, Rhs rep/exponent, radix) from the frozen universe. ",
 "C03": "kernel = (comparison operator, Lhs rep/exponent, Rhs rep/exponent, radix, plain-integer flag) from the frozen universe, plus the elastic_integer/elastic_scaled_integer and wide_integer comparison kernels. ",
}
COMMON_RULE = ("Operands: all values for reps of <= 8 bits, otherwise the boundary lattice (0,+-1..3, limits+-3, +-2^k(+-1), narrower-type bounds, 5,7,10,100,1000) squared plus seeded random values. "
               "The oracle evaluates rep*radix^exponent exactly on 256-bit integers; the result's exponent and radix are read from the actual result type. Domain for built-in reps: exponent-aligned operands fit the "
               "promoted operand types and the exact result rep fits decltype(P(L) op P(R)) (computed on plain integers); elastic reps: unrestricted. distinct_nontrivial counts lattice/enumerated pairs with an operand "
               "that is 0, |x|<=3 or a range limit, or with equal/opposite aligned values.")


def run_prop(prop, tier, seed, only=None, extra_jobs=None):
    res = core.Result(prop, tier, seed)
    ks = scaled_common.select(prop, tier, seed)
    if only:
        ks = [k for k in ks if k[0] == only["kernel"]]
        if not ks:
            ks = [(k["desc"], k["stmt"]) for k in scaled_common.load()["kernels"] if k["desc"] == only["kernel"]]
    cfgs = ["g-san"] if tier == "quick" else ["g-san", "c-san", "g-rel"]
    if only:
        cfgs = [only["config"]]
    env = {"VERIF_SEED": str(seed), "VERIF_NRAND": "40" if tier == "quick" else "150"}
    jobs = []
    for cfg in cfgs:
        for i, sh in enumerate(core.shard(ks, 1 if only else (32 if tier == "quick" else 96))):
            jobs.append(core.Job("%s-%d" % (prop.lower(), i), core.tu("c01.h", sh), cfg, env=env, timeout=3600))
    if extra_jobs and not only:
        jobs += extra_jobs(tier, seed, env)
    if prop == "C01":
        jobs += big.make_jobs("c01", BIG, tier, seed, cfgs, only)
    core.build_and_run(jobs, prop)
    for j in jobs:
        res.absorb(j)
        if getattr(j, "post", None):
            j.post(res, j)
        if j.died:
            res.inconclusive.append("binary %s[%s] died outside a guarded case (rc=%s)" % (j.name, j.config, j.rc))
    res.extra["kernels_generated"] = len(ks)
    res.extra["universe"] = {"file": "matrix/scaled.json", "instantiable": scaled_common.load()["instantiable"], "not_instantiable_candidates": len(scaled_common.load()["not_instantiable"])}
    return res


def run(tier, seed, only=None):
    res = run_prop("C01", tier, seed, only)
    return res.finish(RULES["C01"] + COMMON_RULE + big.RULE, assumptions=[
        "exact oracle on 256-bit integers (rt/x256.h)", "programs whose scaling shift does not instantiate are not generated (frozen universe)",
        "wrapper reps covered: elastic_integer; overflow_integer/rounding_integer reps are exercised by C11/C12"])
