"""C01 / C02 / C03(scaled part) - scaled_integer arithmetic, division contract, comparisons (engine E-scaled)."""
from .. import core
from . import big, scaled_common

# scaled_integer over Karatsuba-sized representations (beyond the 256-bit oracle): judged offline, see harness/big.h
BIG = [("big scaled<wide<1087,i8>,-40> [+-*]", "cnl::scaled_integer<cnl::wide_integer<1087,signed char>,cnl::power<-40>>", "cnl::scaled_integer<cnl::wide_integer<1087,signed char>,cnl::power<-40>>", "+-*", 0),
       ("big scaled<elastic<2100,w32>,-12> * scaled<elastic<2100,w32>,-7>", "cnl::scaled_integer<cnl::elastic_integer<2100,cnl::wide_integer<31,int>>,cnl::power<-12>>", "cnl::scaled_integer<cnl::elastic_integer<2100,cnl::wide_integer<31,int>>,cnl::power<-7>>", "*", 0),
       ("big scaled<wide<4351,i32>,-100> [+-*]", "cnl::scaled_integer<cnl::wide_integer<4351,int>,cnl::power<-100>>", "cnl::scaled_integer<cnl::wide_integer<4351,int>,cnl::power<-100>>", "+-*", 0)]

RULES = {
 "C01": "kernel = (operator in + - * unary-, Lhs rep, Lhs exponent, Rhs rep, Rhs exponent, radix 2|10, plain-integer operand flag), drawn from the frozen instantiable universe (matrix/scaled.json: fixed core + VERIF_SEED sample). ",
 "C02": "kernel = (/ | % | quotient(), Lhs rep/exponent, Rhs rep/exponent, radix) from the frozen universe. ",
 "C03": "kernel = (comparison operator, Lhs rep/exponent, Rhs rep/exponent, radix, plain-integer flag) from the frozen universe, plus the elastic_integer/elastic_scaled_integer and wide_integer comparison kernels. ",
}


def _sw(d, n, e):
    return "cnl::scaled_integer<cnl::wide_integer<%d,%s>,cnl::power<%d>>" % (d, n, e)


def _se(d, n, e):
    return "cnl::scaled_integer<cnl::elastic_integer<%d,%s>,cnl::power<%d>>" % (d, n, e)


W8 = "cnl::wide_integer<7,signed char>"
BIGS = {
 "C01": BIG,
 # division / remainder / quotient() over multi-limb representations (Knuth division with 8/16/32/64-bit limbs; signed digit counts that are
 # whole multiples of the limb width; dividends constructed as q*v+r)
 "C02": [("big scaled<wide<192,u8>,-16> [/%]", _sw(192, "unsigned char", -16), _sw(192, "unsigned char", -16), "/%", 0),
         ("big scaled<wide<191,i32>,-16> scaled<wide<191,i32>,-3> [/%]", _sw(191, "int", -16), _sw(191, "int", -3), "/%", 0),
         ("big scaled<wide<192,i32>,-8> scaled<wide<192,i32>,-2> [/%]", _sw(192, "int", -8), _sw(192, "int", -2), "/%", 0),
         ("big scaled<wide<160,i32>,0> [/%]", _sw(160, "int", 0), _sw(160, "int", 0), "/%", 0),
         ("big scaled<wide<300,i64>,-40> scaled<wide<300,i64>,5> [/%]", _sw(300, "std::int64_t", -40), _sw(300, "std::int64_t", 5), "/%", 0),
         ("big scaled<wide<1087,i8>,-10> [/%]", _sw(1087, "signed char", -10), _sw(1087, "signed char", -10), "/%", 0),
         ("big quotient scaled<wide<96,i32>,-10> scaled<wide<96,i32>,-3>", _sw(96, "int", -10), _sw(96, "int", -3), "q", 0),
         ("big quotient scaled<wide<100,u32>,-50> scaled<wide<100,u32>,-20>", _sw(100, "unsigned", -50), _sw(100, "unsigned", -20), "q", 0),
         ("big quotient scaled<wide<65,i32>,0> scaled<wide<63,i32>,-30>", _sw(65, "int", 0), _sw(63, "int", -30), "q", 0),
         ("big quotient escaled<200,w8,-20> escaled<150,w8,-3>", _se(200, W8, -20), _se(150, W8, -3), "q/%", 0)],
 # comparisons of multi-limb scaled values across large exponent gaps (the alignment multiplies / shifts by more than one limb)
 "C03": [("big scaled<wide<255,i64>,-200> scaled<wide<255,i64>,0> [<=]", _sw(255, "std::int64_t", -200), _sw(255, "std::int64_t", 0), "<=", 0),
         ("big scaled<wide<255,i64>,3> scaled<wide<255,i64>,-247> [<=]", _sw(255, "std::int64_t", 3), _sw(255, "std::int64_t", -247), "<=", 0),
         ("big scaled<wide<1087,i8>,-300> scaled<wide<1087,i8>,40> [<=]", _sw(1087, "signed char", -300), _sw(1087, "signed char", 40), "<=", 0),
         ("big scaled<wide<200,u32>,-100> scaled<wide<200,u32>,-1> [<=]", _sw(200, "unsigned", -100), _sw(200, "unsigned", -1), "<=", 0),
         ("big escaled<600,w8,-300> escaled<500,w8,20> [<=]", _se(600, W8, -300), _se(500, W8, 20), "<=", 0),
         ("big wide<4351,i32> [<=]", "cnl::wide_integer<4351,int>", "cnl::wide_integer<4351,int>", "<=", 0)],
}

COMMON_RULE = ("Operands: all values for reps of <= 8 bits, otherwise the boundary lattice (0,+-1..3, limits+-3, +-2^k(+-1), narrower-type bounds, 5,7,10,100,1000) squared plus seeded random values. "
               "The oracle evaluates rep*radix^exponent exactly on 256-bit integers; the result's exponent and radix are read from the actual result type. Domain for built-in reps: exponent-aligned operands fit the "
               "promoted operand types and the exact result rep fits decltype(P(L) op P(R)) (computed on plain integers); elastic reps: unrestricted. distinct_nontrivial counts lattice/enumerated pairs with an operand "
               "that is 0, |x|<=3 or a range limit, or with equal/opposite aligned values.")


def run_prop(prop, tier, seed, only=None, extra_jobs=None):
    res = core.Result(prop, tier, seed)
    ks = scaled_common.select(prop, tier, seed)
    if only:
        ks = [k for k in ks if k[0] == only["kernel"]]
        if not ks:
            ks = [(k["desc"], k["stmt"]) for k in scaled_common.load()["kernels"] if k["desc"] == only["kernel"]]
    cfgs = ["g-san"] if tier == "quick" else ["g-san", "c-san", "g-rel"]
    if only:
        cfgs = [only["config"]]
    env = {"VERIF_SEED": str(seed), "VERIF_NRAND": "40" if tier == "quick" else "150"}
    jobs = []
    for cfg in cfgs:
        for i, sh in enumerate(core.shard(ks, 1 if only else (32 if tier == "quick" else 96))):
            jobs.append(core.Job("%s-%d" % (prop.lower(), i), core.tu("c01.h", sh), cfg, env=env, timeout=3600))
    if extra_jobs and not only:
        jobs += extra_jobs(tier, seed, env)
    if prop in BIGS:
        jobs += big.make_jobs(prop.lower(), BIGS[prop], tier, seed, cfgs, only)
    core.build_and_run(jobs, prop)
    for j in jobs:
        res.absorb(j)
        if getattr(j, "post", None):
            j.post(res, j)
        if j.died:
            res.inconclusive.append("binary %s[%s] died outside a guarded case (rc=%s)" % (j.name, j.config, j.rc))
    res.extra["kernels_generated"] = len(ks)
    res.extra["universe"] = {"file": "matrix/scaled.json", "instantiable": scaled_common.load()["instantiable"], "not_instantiable_candidates": len(scaled_common.load()["not_instantiable"])}
    return res


def run(tier, seed, only=None):
    res = run_prop("C01", tier, seed, only)
    return res.finish(RULES["C01"] + COMMON_RULE + big.RULE, assumptions=[
        "exact oracle on 256-bit integers (rt/x256.h)", "programs whose scaling shift does not instantiate are not generated (frozen universe)",
        "wrapper reps covered: elastic_integer; overflow_integer/rounding_integer reps are exercised by C11/C12"])
