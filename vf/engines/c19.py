"""C19 - sqrt returns the floor of the square root (engine E-math, online oracle on exact squares)."""
import json
import os
import random
import sys

from .. import core

PATH = os.path.join(core.VERIF, "matrix", "math.json")
INTS = [("signed char", "i8"), ("unsigned char", "u8"), ("short", "i16"), ("unsigned short", "u16"), ("int", "i32"), ("unsigned", "u32"), ("long", "i64"), ("unsigned long", "u64"), ("vf::i128", "i128"), ("vf::u128", "u128")]
REPS = INTS[:8]
RULE = ("kernel = built-in integer type | elastic_integer<D,N> | scaled_integer<Rep, power<E>> (even E in [-60,60]) from the frozen universe matrix/math.json (fixed core + VERIF_SEED sample). "
        "8/16-bit types are enumerated exhaustively (32-bit exhaustively in thorough); otherwise boundary lattice, the top of the range, perfect squares k^2 and k^2+-1 for random k, and seeded random values. "
        "Oracle: r >= 0, r*r <= x < (r+1)*(r+1) on 256-bit integers (no floating point); elastic results must fit (D+1)/2 digits; scaled results must have exponent E/2; a 200 ms CPU watchdog decides termination. "
        "distinct_nontrivial counts enumerated/lattice inputs (perfect squares, squares minus one, boundary values for built-ins).")


def candidates():
    out = {}
    for tc, tn in INTS:
        out["sqrt<%s>" % tn] = ("sqrt", "c19::sqrt_int<%s>" % tc)
    for d in range(1, 64):
        out["sqrt<elastic<%d,int>>" % d] = ("sqrt", "c19::sqrt_elastic<%d,int>" % d)
        if d % 3 == 0:
            out["sqrt<elastic<%d,signed char>>" % d] = ("sqrt", "c19::sqrt_elastic<%d,signed char>" % d)
            out["sqrt<elastic<%d,unsigned>>" % d] = ("sqrt", "c19::sqrt_elastic<%d,unsigned>" % d)
    for d, n, nn in [(7, "unsigned", "u"), (8, "unsigned", "u"), (31, "unsigned", "u"), (33, "unsigned", "u"), (63, "unsigned", "u"), (65, "unsigned", "u"), (127, "unsigned", "u"), (129, "unsigned", "u"), (200, "unsigned", "u"),
                     (201, "unsigned", "u"), (7, "int", "i"), (40, "int", "i"), (64, "int", "i"), (127, "int", "i"), (130, "int", "i"), (201, "int", "i"), (250, "int", "i"), (96, "unsigned char", "u8"), (97, "unsigned short", "u16")]:
        out["sqrt<wide<%d,%s>>" % (d, nn)] = ("sqrt", "c19::sqrt_type<cnl::wide_integer<%d,%s>>" % (d, n))
    for tc, tn in (("cnl::rounding_integer<int,cnl::nearest_rounding_tag>", "rounding_i32"), ("cnl::overflow_integer<unsigned,cnl::saturated_overflow_tag>", "overflow_u32"), ("cnl::static_integer<40>", "static40")):
        out["sqrt<%s>" % tn] = ("sqrt", "c19::sqrt_type<%s>" % tc)
    for tc, tn in REPS:
        for e in range(-60, 61, 2):
            out["sqrt<scaled<%s,%d>>" % (tn, e)] = ("sqrt", "c19::sqrt_scaled<%s,%d>" % (tc, e))
    # other radixes (the unit of the root is Radix^(E/2))
    for i, (tc, tn) in enumerate(REPS):
        for r, es in ((10, (-8, -6, -4, -2, 2, 4)), (3, (-2, 2)), (16, (-2, 4)), (8, (-2,))):
            for e in es:
                if r == 10 or (i + e) % 2 == 0:
                    out["sqrt<scaled<%s,%d,r%d>>" % (tn, e, r)] = ("sqrt", "c19::sqrt_scaled<%s,%d,%d>" % (tc, e, r))
    # exp2: reps up to 32 bits, every exponent that leaves at least one integer bit
    for tc, tn, dig in [("signed char", "i8", 7), ("unsigned char", "u8", 8), ("short", "i16", 15), ("unsigned short", "u16", 16), ("int", "i32", 31), ("unsigned", "u32", 32)]:
        for e in list(range(-(dig - 1), 1)) + [1, 2, 3]:   # (positive exponents: x is a multiple of 2^e)
            out["exp2<scaled<%s,%d>>" % (tn, e)] = ("exp2", "c19::exp2_log<%s,%d>" % (tc, e))
    need = {"e": 2, "log2e": 1, "log10e": 0, "pi": 2, "inv_pi": 0, "inv_sqrtpi": 0, "ln2": 0, "ln10": 2, "sqrt2": 1, "sqrt3": 1, "inv_sqrt3": 0, "egamma": 0, "phi": 1}
    for tc, tn, dig in [("signed char", "i8", 7), ("unsigned char", "u8", 8), ("short", "i16", 15), ("unsigned short", "u16", 16), ("int", "i32", 31), ("unsigned", "u32", 32), ("long", "i64", 63), ("unsigned long", "u64", 64)]:
        for e in range(-dig, 1):
            for c, nb in need.items():
                if dig + e >= nb:
                    out["const<%s,scaled<%s,%d>>" % (c, tn, e)] = ("const", "c19::constant_log<%s,%d,c19::C_%s>" % (tc, e, c))
    return out


def load():
    with open(PATH) as f:
        return json.load(f)


def select(kind, tier, seed, ncore, nquick):
    u = [k for k in load()["kernels"] if k["kind"] == kind]
    rng = random.Random("%s-%d" % (kind, seed))
    n = nquick if tier == "quick" else len(u)
    return u[:ncore] + rng.sample(u[ncore:], max(0, min(len(u) - ncore, n - ncore)))


def run(tier, seed, only=None):
    res = core.Result("C19", tier, seed)
    ks = [k for k in load()["kernels"] if k["desc"].startswith("sqrt<") and "scaled" not in k["desc"]]  # every built-in and elastic kernel, always
    ks += select("sqrt", tier, seed, 40, 150)
    ks += [k for k in load()["kernels"] if k["desc"].startswith(("sqrt<wide<", "sqrt<rounding", "sqrt<overflow", "sqrt<static"))]
    rk = [k for k in load()["kernels"] if k["kind"] == "sqrt" and ",r" in k["desc"]]
    ks += rk if tier == "thorough" else rk[seed % 2::2]   # other radixes: half of them per seed in quick
    seen = set()
    ks = [k for k in ks if not (k["desc"] in seen or seen.add(k["desc"]))]
    if only:
        ks = [k for k in load()["kernels"] if k["desc"] == only["kernel"]]
    cfgs = ["g-san"] if tier == "quick" else ["g-san", "c-san", "g-rel"]
    if only:
        cfgs = [only["config"]]
    env = {"VERIF_SEED": str(seed), "VERIF_N": "100000" if tier == "quick" else "2000000"}
    stm = [(k["desc"], k["stmt"]) for k in ks]
    jobs = []
    for cfg in cfgs:
        for i, sh in enumerate(core.shard(stm, 1 if only else (24 if tier == "quick" else 64))):
            jobs.append(core.Job("c19-%d" % i, core.tu("c19.h", sh), cfg, env=env, timeout=3600))
    if tier == "thorough" and not only:
        e2 = dict(env, VERIF_EXH32="1")
        for k in ks:
            if k["desc"] in ("sqrt<i32>", "sqrt<u32>"):
                jobs.append(core.Job("c19x-" + k["desc"][5:8], core.tu("c19.h", [(k["desc"], k["stmt"])]), "g-rel", env=e2, timeout=7200))
    core.build_and_run(jobs, "C19")
    for j in jobs:
        res.absorb(j)
        if j.died:
            res.inconclusive.append("binary %s[%s] died outside a guarded case (rc=%s)" % (j.name, j.config, j.rc))
    res.extra["kernels_generated"] = len(ks)
    return res.finish(RULE, assumptions=["oracle: exact squares on 256-bit integers", "domain: non-negative inputs"])


if __name__ == "__main__":
    from .. import probe
    c = candidates()
    stmts = [(d, '%s("%s"%s);' % (s, d, "" if kind == "sqrt" else ", 0")) for d, (kind, s) in c.items()]
    print("probing %d candidates" % len(stmts), file=sys.stderr)
    ok, bad = probe.probe("c19.h", stmts, batch=40)
    okset = set(d for d, s in ok)
    kernels = [{"kind": c[d][0], "desc": d, "stmt": '%s("%s");' % (c[d][1], d)} for d in c if d in okset]
    random.Random(7).shuffle(kernels)
    with open(PATH, "w") as f:
        json.dump({"probed_against_tree": core.tree_hash()[:16], "instantiable": len(kernels), "not_instantiable": sorted(d for d, s in bad), "kernels": kernels}, f, indent=0)
    print("instantiable %d, not instantiable %d" % (len(kernels), len(bad)))
