"""C12 - wrapping is transparent: native-tag types compute what bare integers compute (engine E-native)."""
import json
import os
import random
import sys

from .. import core

PATH = os.path.join(core.VERIF, "matrix", "native.json")
TS = [("signed char", "i8"), ("unsigned char", "u8"), ("short", "i16"), ("unsigned short", "u16"), ("int", "i32"), ("unsigned", "u32"), ("long", "i64"), ("unsigned long", "u64")]
OPS = ["ADD", "SUB", "MUL", "DIV", "MOD", "AND", "OR", "XOR", "SHL", "SHR", "LT", "LE", "GT", "GE", "EQ", "NE", "UMINUS", "UPLUS", "UNOT",
       "AADD", "ASUB", "AMUL", "ADIV", "AMOD", "AAND", "AOR", "AXOR", "ASHL", "ASHR", "PREINC", "POSTINC", "PREDEC", "POSTDEC"]
NEST = ["S", "O", "R", "SO", "SR", "OR", "RO", "SOR", "SRO"]
RULE = ("kernel = (wrapper nesting over {scaled_integer<.,power<0>>, overflow_integer<.,native_overflow_tag>, rounding_integer<.,native_rounding_tag>}, built-in type 8..64 bit, operator form: 16 binary, 3 unary, 10 compound assignments, "
        "4 inc/dec) from the frozen instantiable universe matrix/native.json, plus the documented fixed-point kernels (multiply-widen, mixed-exponent add, average, square, ++/--) against hand-written shift-and-operate twins. "
        "Oracle: the same built-in expression executed in the same binary (value and result type), evaluated only on inputs where it has no undefined behaviour (exact pre-check on 256-bit integers). 8-bit operand pairs exhaustively "
        "(in thorough: all 2^32 pairs of 16-bit operands for a seeded selection of 32 binary kernels on the as-shipped build), boundary lattice squared + seeded random otherwise. distinct_nontrivial counts enumerated/lattice pairs with an operand within 3 of 0, a bound or a power of two.")


def wtype(n, t):
    for k in reversed(n):
        t = {"S": "cnl::scaled_integer<%s,cnl::power<0>>", "O": "cnl::overflow_integer<%s,cnl::native_overflow_tag>", "R": "cnl::rounding_integer<%s,cnl::native_rounding_tag>"}[k] % t
    return t


def candidates():
    out = {}
    for n in NEST:
        for tc, tn in TS:
            for op in OPS:
                d = "%s<%s> %s" % (n, tn, op)
                out[d] = ("native", "c12::native<%s,%s,c12::%s>" % (wtype(n, tc), tc, op))
    mixops = ["ADD", "SUB", "MUL", "DIV", "MOD", "AND", "OR", "XOR", "LT", "LE", "GT", "GE", "EQ", "NE"]
    bare = [("int", "i32"), ("long", "i64"), ("unsigned char", "u8"), ("short", "i16"), ("unsigned", "u32"), ("signed char", "i8")]
    for n in ["S", "O", "R", "SO", "SOR"]:
        for tc, tn in TS:
            for bc, bn in bare:
                for op in mixops:
                    d = "%s<%s> %s bare %s" % (n, tn, op, bn)
                    out[d] = ("mixed", "c12::native_mixed<%s,%s,%s,c12::%s>" % (wtype(n, tc), tc, bc, op))
    fx = [("short", "i16", -8, -8), ("short", "i16", -4, -10), ("int", "i32", -16, -16), ("int", "i32", -8, -20), ("signed char", "i8", -3, -4), ("long", "i64", -30, -30), ("unsigned short", "u16", -8, -8), ("unsigned", "u32", -16, -8),
          ("signed char", "i8", -4, 0), ("signed char", "i8", 0, -4), ("unsigned char", "u8", -2, -6), ("short", "i16", -10, -4), ("unsigned short", "u16", 0, -8), ("int", "i32", -20, -8)]
    for tc, tn, e1, e2 in fx:
        for k in ["MULWIDEN", "MIXADD", "AVERAGE", "SQUARE", "INCDEC", "MIXCMP", "MIXSUB", "MIXOR"]:
            d = "fixed<%s,%d,%d> %s" % (tn, e1, e2, k)
            out[d] = ("fixed", "c12::fixedpoint<%s,%d,%d,c12::%s>" % (tc, e1, e2, k))
    # the same kernels for decimal scaling (the twin multiplies by 10^k), both operand orders
    fx10 = [("int", "i32", -2, 1), ("int", "i32", 1, -2), ("short", "i16", -1, 0), ("short", "i16", 0, -2), ("long", "i64", -6, -2), ("long", "i64", -2, -6), ("unsigned", "u32", 0, -3), ("unsigned", "u32", -3, 0),
            ("signed char", "i8", -1, 0), ("signed char", "i8", 0, -1), ("unsigned short", "u16", 2, 0), ("int", "i32", -4, -4)]
    for tc, tn, e1, e2 in fx10:
        for k in ["MULWIDEN", "MIXADD", "SQUARE", "INCDEC", "MIXCMP", "MIXSUB", "MIXOR"]:
            d = "fixed<%s,%d,%d,r10> %s" % (tn, e1, e2, k)
            out[d] = ("fixed", "c12::fixedpoint<%s,%d,%d,c12::%s,10>" % (tc, e1, e2, k))
    # a cnl::constant<N> operand (value type of N as written): every unsigned and signed rep, negative and >= 2^31 constants
    cops = ["ADD", "SUB", "MUL", "DIV", "MOD", "AND", "OR", "XOR", "LT", "LE", "GT", "GE", "EQ", "NE"]
    for n in ["O", "R", "OR", "RO"]:   # (a scaled_integer outermost turns constant<2^k * m> into m at exponent k: not a built-in twin)
        for tc, tn in TS:
            for nv, nn in (("2", "2"), ("-3", "-3"), ("2147483648L", "2^31"), ("-1", "-1"), ("255", "255")):
                for op in cops:
                    d = "%s<%s> %s const %s" % (n, tn, op, nn)
                    out[d] = ("const", "c12::native_const<%s,%s,c12::%s,%s>" % (wtype(n, tc), tc, op, nv))
    return out


def load():
    with open(PATH) as f:
        return json.load(f)


def run(tier, seed, only=None):
    res = core.Result("C12", tier, seed)
    uni = load()["kernels"]
    rng = random.Random("C12-%d" % seed)
    fixed = [k for k in uni if k["kind"] == "fixed"]
    nat = [k for k in uni if k["kind"] == "native"]
    mixed = [k for k in uni if k["kind"] == "mixed"]
    const = [k for k in uni if k["kind"] == "const"]
    # constants: every (nesting, rep) once with a negative constant in the core, then a seeded sample
    ccore = [k for k in const if k["desc"].endswith(("SUB const -3", "LT const -1", "AND const -3", "SUB const 2", "ADD const 2^31"))]
    ccore = ccore[:: max(1, len(ccore) // 60)]
    ks = fixed + (nat if tier == "thorough" else nat[:150] + rng.sample(nat[150:], 350)) + (mixed if tier == "thorough" or len(mixed) <= 300 else mixed[:60] + rng.sample(mixed[60:], 240))
    ks += const if tier == "thorough" else ccore + rng.sample([k for k in const if k not in ccore], min(60, max(0, len(const) - len(ccore))))
    if only:
        ks = [k for k in uni if k["desc"] == only["kernel"]]
    cfgs = ["g-san", "g-rel"] if tier == "quick" else ["g-san", "g-rel", "c-rel", "c-san"]
    if only:
        cfgs = [only["config"]]
    env = {"VERIF_SEED": str(seed)}
    stm = [(k["desc"], k["stmt"]) for k in ks]
    jobs = []
    for cfg in cfgs:
        for i, sh in enumerate(core.shard(stm, 1 if only else (32 if tier == "quick" else 64))):
            jobs.append(core.Job("c12-%d" % i, core.tu("c12.h", sh), cfg, env=dict(env), timeout=7200))
    if tier == "thorough" and not only:
        # all 2^32 pairs of 16-bit operands on the as-shipped build for a seeded selection of 32 binary kernels (one job each: ~10 min apiece)
        k16 = [k for k in nat if ("<i16>" in k["desc"] or "<u16>" in k["desc"]) and k["desc"].split()[-1] in ("ADD", "SUB", "MUL", "DIV", "MOD", "SHL", "SHR", "LT", "AADD", "AMUL", "ADIV", "ASHL")]
        for i, k in enumerate(rng.sample(k16, min(32, len(k16)))):
            jobs.append(core.Job("c12x-%d" % i, core.tu("c12.h", [(k["desc"], k["stmt"])]), "g-rel", env=dict(env, VERIF_EXH16="1"), timeout=7200))
    core.build_and_run(jobs, "C12")
    for j in jobs:
        res.absorb(j)
        if j.died:
            res.inconclusive.append("binary %s[%s] died outside a guarded case (rc=%s)" % (j.name, j.config, j.rc))
    res.extra["kernels_generated"] = len(ks)
    res.extra["not_instantiable_forms"] = len(load()["not_instantiable"])
    res.extra["limit"] = "equivalence 'as compiled IR' and over all 2^64 pairs of 32-bit operands is out of reach of execution; see DESIGN.md section 5"
    return res.finish(RULE, assumptions=["reference = the built-in expression in the same binary, only where it has no UB (C++20 rules: << of negative values is defined)",
                                         "g-rel/c-rel are the suite's own flags (-O2 -DNDEBUG): UB in CNL would show as a value mismatch or crash there, as a trap in g-san"])


if __name__ == "__main__":
    from .. import probe
    c = candidates()
    stmts = [(d, '%s("%s");' % (s, d)) for d, (kind, s) in c.items()]
    print("probing %d candidates" % len(stmts), file=sys.stderr)
    ok, bad = probe.probe("c12.h", stmts, batch=24)
    okset = set(d for d, s in ok)
    kernels = [{"kind": c[d][0], "desc": d, "stmt": '%s("%s");' % (c[d][1], d)} for d in c if d in okset]
    random.Random(7).shuffle(kernels)
    with open(PATH, "w") as f:
        json.dump({"probed_against_tree": core.tree_hash()[:16], "instantiable": len(kernels), "not_instantiable": sorted(d for d, s in bad), "kernels": kernels}, f, indent=0)
    print("instantiable %d, not instantiable %d" % (len(kernels), len(bad)))
