"""C04 - conversions preserve value or truncate toward zero; scaled->float is the nearest float (engine E-scaled)."""
import json
import os
import random
import sys
from fractions import Fraction as Fr

from .. import core

BUILTIN = [("signed char", "i8"), ("unsigned char", "u8"), ("short", "i16"), ("unsigned short", "u16"), ("int", "i32"), ("unsigned", "u32"), ("long", "i64"), ("unsigned long", "u64")]
FLOATS = [("float", "f32", 24), ("double", "f64", 53), ("long double", "f80", 64)]
PATH = os.path.join(core.VERIF, "matrix", "conv.json")

RULE = ("kernel = (source rep, source exponent, destination rep, destination exponent, radix pair, plain-integer flag) for integer conversions (static_cast and constructor must agree), "
        "(rep, exponent, radix) for the from_rep/to_rep and wrap/unwrap inverses, (rep, exponent, floating type) for floating conversions; drawn from the frozen instantiable universe matrix/conv.json "
        "(fixed core + VERIF_SEED sample). Sources: all values for <=16-bit reps, else boundary lattice + values solved to land within 2 of a destination bound + seeded random; floats: significand ties and their "
        "neighbours, (rep+frac)*radix^e for frac in {0, .5, random}. Integer conversions are judged online against the exact truncated quotient on 256-bit integers; floating results are logged and judged offline with "
        "python Fractions: scaled->float must be the nearest float (ties to even), float->scaled the truncation toward zero, scaled->wider float->scaled the identity. Radix-10 <-> floating is surveyed, not judged "
        "(the scale factor itself is rounded; DESIGN C04). distinct_nontrivial counts enumerated/lattice sources that are 0, small, a range limit, land on a destination limit or lose digits, and tie/neighbour floats.")


def candidates():
    rng = random.Random(4004)
    out = {}
    exps = list(range(-70, 71))
    def add(kind, d, s):
        out.setdefault(d, (kind, s))
    n = 0
    while len(out) < 1500:
        s = rng.choice(BUILTIN); d = rng.choice(BUILTIN)
        radix = rng.random()
        if radix < 0.7:
            se = rng.choice(exps); de = max(-70, min(70, se + rng.choice([0, 1, -1, 2, -2, 3, -3, 7, -7, 8, -8, 15, -16, 24, -24, 31, -31, 33, -40, 47, -62, 63])))
            plain = rng.choice([0, 0, 0, 1, 2])
            if plain == 1: de = 0
            if plain == 2: se = 0
            add("conv", "%s %s -> %s r2" % ("s<%s,%d>" % (s[1], se) if plain != 2 else s[1], "", "s<%s,%d>" % (d[1], de) if plain != 1 else d[1]),
                "c04::conv<%s,%d,%s,%d,2,2,%d>" % (s[0], se, d[0], de, plain))
        elif radix < 0.85:
            se = rng.choice(range(-8, 5)); de = max(-8, min(4, se + rng.choice([-3, -2, -1, 0, 1, 2, 3])))
            add("conv", "s<%s,%d>  -> s<%s,%d> r10" % (s[1], se, d[1], de), "c04::conv<%s,%d,%s,%d,10,10,0>" % (s[0], se, d[0], de))
        else:
            # different radixes: binary <-> decimal
            if rng.random() < 0.5:
                se = rng.choice(range(-12, 6)); de = rng.choice(range(-3, 3))
                add("conv", "s<%s,%d>r2  -> s<%s,%d>r10" % (s[1], se, d[1], de), "c04::conv<%s,%d,%s,%d,2,10,0>" % (s[0], se, d[0], de))
            else:
                se = rng.choice(range(-3, 3)); de = rng.choice(range(-12, 6))
                add("conv", "s<%s,%d>r10  -> s<%s,%d>r2" % (s[1], se, d[1], de), "c04::conv<%s,%d,%s,%d,10,2,0>" % (s[0], se, d[0], de))
    for i in range(150):
        s = rng.choice(BUILTIN); se = rng.choice(exps); radix = rng.choice([2, 2, 10])
        if radix == 10: se = rng.choice(range(-8, 5))
        add("inv", "inverses s<%s,%d> r%d" % (s[1], se, radix), "c04::inverses<%s,%d,%d>" % (s[0], se, radix))
    while len([1 for v in out.values() if v[0] == "float"]) < 700:
        s = rng.choice(BUILTIN); f = rng.choice(FLOATS); radix = 2 if rng.random() < 0.85 else 10
        se = rng.choice(exps) if radix == 2 else rng.choice(range(-12, 8))
        add("float", "float s<%s,%d> r%d %s" % (s[1], se, radix, f[1]), "c04::floats<%s,%d,%d,%s>" % (s[0], se, radix, f[0]))
    return out


def load():
    with open(PATH) as f:
        return json.load(f)


def select(tier, seed):
    uni = load()["kernels"]
    rng = random.Random("C04-%d" % seed)
    out = []
    for kind, ncore, nq in (("conv", 80, 300), ("inv", 10, 30), ("float", 40, 140)):
        u = [k for k in uni if k["kind"] == kind]
        n = nq if tier == "quick" else len(u)
        chosen = u[:ncore]
        if kind == "float":
            # stratify: every (rep type, radix, floating type) group at least once
            groups = {}
            for k in u[ncore:]:
                d = k["desc"].split()
                groups.setdefault((d[1].split(",")[0], d[2], d[3]), []).append(k)
            for key in sorted(groups):
                chosen.append(rng.choice(groups[key]))
        rest = [k for k in u[ncore:] if k not in chosen]
        chosen += rng.sample(rest, max(0, min(len(rest), n - len(chosen))))
        out += chosen
    return out


def hexl(s):
    if "inf" in s or "nan" in s:
        return None
    neg = s.startswith("-")
    s = s.lstrip("-")
    mant, exp = s[2:].split("p")
    ip, fp = (mant.split(".") + [""])[:2]
    x = Fr(int(ip + fp, 16), 16 ** len(fp)) * Fr(2) ** int(exp)
    return -x if neg else x


EMIN = {24: -126, 53: -1022, 64: -16382}
EMAX = {24: 128, 53: 1024, 64: 16384}


def nearest(v, m):
    """round-to-nearest-even to an m-bit significand; None outside the normal range"""
    if v == 0:
        return Fr(0)
    a = abs(v)
    e = a.numerator.bit_length() - a.denominator.bit_length()
    if Fr(2) ** e > a:
        e -= 1
    if Fr(2) ** (e + 1) <= a:
        e += 1
    if e < EMIN[m] or e >= EMAX[m] - 1:
        return None
    q = a / Fr(2) ** (e - m + 1)
    fl = q.numerator // q.denominator
    r = q - fl
    if r > Fr(1, 2) or (r == Fr(1, 2) and fl % 2 == 1):
        fl += 1
    res = fl * Fr(2) ** (e - m + 1)
    return res if v > 0 else -res


def judge_floats(res, job):
    kd = {r["id"]: r for r in job.records if r.get("t") == "kd"}
    tall = {}
    def T(kid):
        return tall.setdefault(kid, {"judged": 0, "ood": 0, "nt": 0, "kinds": {}, "classes": {}, "samples": [], "viol": {}})
    def viol(t, cls, w):
        n, ws = t["viol"].get(cls, (0, []))
        if len(ws) < 4:
            ws.append(w)
        t["viol"][cls] = (n + 1, ws)
    for line in job.raw:
        p = line.split()
        if len(p) != 4 or p[0] not in "TFR":
            continue
        k = kd.get(int(p[1]))
        if not k:
            continue
        t = T(int(p[1]))
        m, e, radix = k["mant"], k["exp"], k["radix"]
        unit = Fr(radix) ** e
        lo, hi = int(k["lo"]), int(k["hi"])
        if p[0] == "T":
            x = int(p[2]); v = x * unit
            if not p[3].startswith(("0x", "-0x")):
                if p[3] in ("inf", "-inf") and nearest(v, m) is None:
                    t["ood"] += 1  # the value is outside the finite range of the floating type
                    continue
                t["judged"] += 1; t["kinds"][p[3]] = t["kinds"].get(p[3], 0) + 1
                viol(t, "to_float:" + p[3], {"in": "%d*%d^%d" % (x, radix, e), "exp": "a floating value", "obs": p[3]})
                continue
            got = hexl(p[3]); want = nearest(v, m)
            if want is None or got is None:
                t["ood"] += 1; continue
            if radix != 2:
                t["classes"]["decimal_to_float_surveyed_" + ("nearest" if got == want else "not_nearest")] = t["classes"].get("decimal_to_float_surveyed_" + ("nearest" if got == want else "not_nearest"), 0) + 1
                t["ood"] += 1; continue
            t["judged"] += 1; t["nt"] += 1; t["kinds"]["VALUE"] = t["kinds"].get("VALUE", 0) + 1
            if got != want:
                viol(t, "to_float_not_nearest", {"in": "%d*2^%d" % (x, e), "exp": str(float(want)) + " = " + str(want), "obs": p[3]})
            else:
                if v != want:
                    t["classes"]["rounded_to_nearest"] = t["classes"].get("rounded_to_nearest", 0) + 1
                if len(t["samples"]) < 2:
                    t["samples"].append({"inputs": "%d*2^%d -> %s" % (x, e, k["k"]), "expected": str(want), "observed": p[3]})
        elif p[0] == "R":
            x = int(p[2])
            if radix != 2:
                t["ood"] += 1; continue
            t["judged"] += 1; t["nt"] += 1
            if p[3] != p[2]:
                viol(t, "float_roundtrip_not_identity", {"in": p[2], "exp": p[2], "obs": p[3]})
        else:
            v = hexl(p[2])
            if v is None:
                t["ood"] += 1; continue
            q = v / unit
            want = q.numerator // q.denominator if q >= 0 else -((-q.numerator) // q.denominator)
            if want < lo or want > hi:
                t["ood"] += 1; continue
            if radix != 2:
                t["classes"]["float_to_decimal_surveyed_" + ("exact" if p[3] == str(want) else "off")] = t["classes"].get("float_to_decimal_surveyed_" + ("exact" if p[3] == str(want) else "off"), 0) + 1
                t["ood"] += 1; continue
            t["judged"] += 1; t["nt"] += 1
            if p[3] != str(want):
                viol(t, "from_float_not_truncated" if p[3].lstrip("-").isdigit() else "from_float:" + p[3], {"in": p[2], "exp": str(want), "obs": p[3]})
            elif q.denominator != 1:
                t["classes"]["float_truncated_" + ("neg" if q < 0 else "pos")] = t["classes"].get("float_truncated_" + ("neg" if q < 0 else "pos"), 0) + 1
    for kid, t in tall.items():
        res.add_tally(job, kd[kid]["k"], t["judged"], t["ood"], t["nt"], t["kinds"], t["classes"], t["samples"], t["viol"])
    res.kernels[job.config] = res.kernels.get(job.config, 0) + len(tall)


def run(tier, seed, only=None):
    res = core.Result("C04", tier, seed)
    ks = select(tier, seed)
    if only:
        ks = [k for k in load()["kernels"] if k["desc"] == only["kernel"]]
    cfgs = ["g-san"] if tier == "quick" else ["g-san", "c-san", "g-rel"]
    if only:
        cfgs = [only["config"]]
    env = {"VERIF_SEED": str(seed), "VERIF_NRAND": "1000" if tier == "quick" else "5000", "VERIF_NFLOAT": "300" if tier == "quick" else "3000"}
    jobs = []
    online = [(k["desc"], k["stmt"]) for k in ks if k["kind"] != "float"]
    fl = [k for k in ks if k["kind"] == "float"]
    flstm = [(k["desc"], k["stmt"].replace('("', '("').replace('");', '", %d);' % i)) for i, k in enumerate(fl)]
    for cfg in cfgs:
        if online:
            for i, sh in enumerate(core.shard(online, 1 if only else (24 if tier == "quick" else 64))):
                jobs.append(core.Job("c04-%d" % i, core.tu("c04.h", sh), cfg, env=env, timeout=3600))
        if flstm:
            for i, sh in enumerate(core.shard(flstm, 1 if only else (8 if tier == "quick" else 32))):
                j = core.Job("c04f-%d" % i, core.tu("c04.h", sh), cfg, env=env, timeout=3600)
                j.keep_raw = True
                jobs.append(j)
    core.build_and_run(jobs, "C04")
    for j in jobs:
        res.absorb(j)
        if j.keep_raw:
            judge_floats(res, j)
        if j.died:
            res.inconclusive.append("binary %s[%s] died outside a guarded case (rc=%s)" % (j.name, j.config, j.rc))
    res.extra["kernels_generated"] = len(ks)
    return res.finish(RULE, assumptions=[
        "domain: source value within the destination's range (numeric_limits of the destination built-in rep); float results finite and normal",
        "decimal <-> floating conversions are surveyed (class histogram) but not judged: the decimal scale factor is itself rounded (double rounding)",
        "offline checker: python fractions.Fraction; long double printing via %La is exact"])


if __name__ == "__main__":
    from .. import probe
    c = candidates()
    stmts = [(d, '%s("%s"%s);' % (s, d, ", 0" if kind == "float" else "")) for d, (kind, s) in c.items()]
    print("probing %d candidates" % len(stmts), file=sys.stderr)
    ok, bad = probe.probe("c04.h", stmts)
    okset = set(d for d, s in ok)
    kernels = [{"kind": c[d][0], "desc": d, "stmt": '%s("%s");' % (c[d][1], d)} for d in c if d in okset]
    random.Random(7).shuffle(kernels)
    with open(PATH, "w") as f:
        json.dump({"probed_against_tree": core.tree_hash()[:16], "instantiable": len(kernels), "not_instantiable": sorted(d for d, s in bad), "kernels": kernels}, f, indent=0)
    print("instantiable %d, not instantiable %d" % (len(kernels), len(bad)))
