"""C06 / C07 - overflow detection and totality of checked arithmetic (engine E-overflow)."""
import random
from .. import core

INTS = [("signed char", "i8"), ("unsigned char", "u8"), ("short", "i16"), ("unsigned short", "u16"), ("int", "i32"), ("unsigned", "u32"),
        ("long", "i64"), ("unsigned long", "u64"), ("vf::i128", "i128"), ("vf::u128", "u128")]
FLOATS = [("float", "f32"), ("double", "f64"), ("long double", "f80")]
OPS = [("Add", "+"), ("Sub", "-"), ("Mul", "*"), ("Div", "/"), ("Shl", "<<")]
TAGS = [("Sat", "saturated"), ("Thr", "throwing"), ("Trp", "trapping")]

RULE = ("kernel = (entry point, operator|convert, operand types, overflow tag) x configuration (detection path/compiler). 8-bit x 8-bit operand pairs are enumerated "
        "exhaustively; otherwise boundary lattice x boundary lattice, operand pairs solved so that the exact result is bound(result type)+-{0,1,2}, every shift count "
        "0..2w+1 and huge counts, float sources at and next to every bound/tie, plus VERIF_SEED-dependent random pairs. The oracle computes the exact result on 256-bit "
        "integers from the operand values and the C++ result type (decltype on plain integers). distinct_nontrivial counts enumerated/lattice cases (distinct by "
        "construction) whose exact result is within 2 of a result-type bound or one of whose operands is within 3 of 0, a type bound or a power of two; "
        "per kernel the maximum over configurations.")


def kernels(tier, seed):
    rng = random.Random(seed)
    ks = []
    thorough = tier == "thorough"
    def tagsel(i):
        return TAGS if thorough else [TAGS[(i + seed) % 3]]
    n = 0
    for oi, (oc, on) in enumerate(OPS):
        for li, (lc, ln) in enumerate(INTS):
            for ri, (rc, rn) in enumerate(INTS):
                n += 1
                for tc, tn in tagsel(n + oi):
                    ks.append(("operate<%s,%s>(%s,%s)" % (on, tn, ln, rn), "c06::binop<c06::%s,c06::%s,%s,%s,c06::E_OPERATE>" % (oc, tc, lc, rc)))
                # the wrapper entry point on a seeded third of the pairs (all in thorough)
                if thorough or (n + seed) % 3 == 0:
                    tc, tn = TAGS[(n // 3 + seed) % 3] if not thorough else TAGS[n % 3]
                    ks.append(("overflow_integer<%s,%s>(%s,%s)" % (on, tn, ln, rn), "c06::binop<c06::%s,c06::%s,%s,%s,c06::E_WRAPPER>" % (oc, tc, lc, rc)))
    for li, (lc, ln) in enumerate(INTS):
        for ti, (tc, tn) in enumerate(TAGS):
            ks.append(("operate<neg,%s>(%s)" % (tn, ln), "c06::unary_minus<c06::%s,%s,c06::E_OPERATE>" % (tc, lc)))
            if thorough or (li + ti + seed) % 3 == 0:
                ks.append(("overflow_integer<neg,%s>(%s)" % (tn, ln), "c06::unary_minus<c06::%s,%s,c06::E_WRAPPER>" % (tc, lc)))
                ks.append(("overflow_integer<incdec,%s>(%s)" % (tn, ln), "c06::incdec<c06::%s,%s>" % (tc, lc)))
    n = 0
    for sc, sn in INTS:
        for dc, dn in INTS:
            n += 1
            for tc, tn in tagsel(n):
                ks.append(("convert<%s>(%s->%s)" % (tn, sn, dn), "c06::convert_int<c06::%s,%s,%s,c06::E_OPERATE>" % (tc, sc, dc)))
            if thorough or (n + seed) % 4 == 0:
                tc, tn = TAGS[(n + seed) % 3]
                ks.append(("ctor<%s>(%s->%s)" % (tn, sn, dn), "c06::convert_int<c06::%s,%s,%s,c06::E_WRAPPER>" % (tc, sc, dc)))
    n = 0
    for fc, fn in FLOATS:
        for dc, dn in INTS:
            n += 1
            for tc, tn in tagsel(n):
                ks.append(("convert<%s>(%s->%s)" % (tn, fn, dn), "c06::convert_float<c06::%s,%s,%s,c06::E_OPERATE>" % (tc, fc, dc)))
            if thorough or (n + seed) % 3 == 0:
                tc, tn = TAGS[(n + 1 + seed) % 3]
                ks.append(("ctor<%s>(%s->%s)" % (tn, fn, dn), "c06::convert_float<c06::%s,%s,%s,c06::E_WRAPPER>" % (tc, fc, dc)))
    # compound assignment: a seeded sample of pairs (all pairs of the 8 narrower types in thorough)
    pairs = [(l, r) for l in INTS for r in INTS]
    sample = pairs if thorough else rng.sample(pairs, 24)
    for i, ((lc, ln), (rc, rn)) in enumerate(sample):
        oc, on = OPS[i % 4]
        tc, tn = TAGS[(i + seed) % 3]
        ks.append(("overflow_integer<%s=,%s>(%s,%s)" % (on, tn, ln, rn), "c06::compound<c06::%s,c06::%s,%s,%s>" % (oc, tc, lc, rc)))
    # C07 only: % and >> (not range-checked by the tags) must be total
    n = 0
    for oc, on in (("Mod", "%"), ("Shr", ">>")):
        for li, (lc, ln) in enumerate(INTS):
            for ri, (rc, rn) in enumerate(INTS):
                n += 1
                same = li == ri or (li // 2 == ri // 2)
                if not (thorough or same or (n + seed) % 5 == 0):
                    continue
                tc, tn = TAGS[(n + seed) % 3]
                ks.append(("operate<%s,%s>(%s,%s)" % (on, tn, ln, rn), "c06::total<c06::%s,c06::%s,%s,%s,c06::E_OPERATE>" % (oc, tc, lc, rc)))
                if thorough or (n + seed) % 2 == 0:
                    ks.append(("overflow_integer<%s,%s>(%s,%s)" % (on, tn, ln, rn), "c06::total<c06::%s,c06::%s,%s,%s,c06::E_WRAPPER>" % (oc, tc, lc, rc)))
    # C07 only: a rounding layer inside the overflow wrapper, and a built-in operand shifted by a wrapper count
    n = 0
    for li, (lc, ln) in enumerate(INTS[:8]):
        for ti, (tc, tn) in enumerate(TAGS):
            n += 1
            if thorough or (n + seed) % 3 == 0:
                ks.append(("overflow<rounding<%s,nearest>,%s> ops" % (ln, tn), "c06::total_forms<c06::%s,%s,0>" % (tc, lc)))
            if thorough or (n + seed) % 3 == 1:
                ks.append(("%s shifted by overflow_integer<%s,%s> count" % (ln, ln, tn), "c06::total_forms<c06::%s,%s,1>" % (tc, lc)))
    # C07 only: a scaled_integer source converted to a built-in integer under a checked tag (convert<> and the overflow_integer constructor)
    n = 0
    for (rc, rn) in (INTS[0], INTS[2], INTS[4], INTS[5], INTS[6]):
        for e in (-4, 1, 10):
            for (dc, dn) in (INTS[4], INTS[2], INTS[7], INTS[6]):
                n += 1
                if not (thorough or (n + seed) % 5 == 0 or (rn == "i32" and dn == "i32")):
                    continue
                tc, tn = TAGS[(n + seed) % 3]
                ep = "E_OPERATE" if (n // 3 + seed) % 2 == 0 else "E_WRAPPER"
                ks.append(("convert<%s>(scaled<%s,2^%d>->%s) %s" % (tn, rn, e, dn, "convert" if ep == "E_OPERATE" else "ctor"),
                           "c06::convert_scaled<c06::%s,%s,%d,%s,c06::%s>" % (tc, rc, e, dc, ep)))
    return [(d, '%s("%s");' % (c, d)) for d, c in ks]


def configs(prop, tier):
    # both properties additionally run the as-shipped flags (-O2 -DNDEBUG): there unreachable() is __builtin_unreachable (observed
    # through -fsanitize=unreachable) and the trapping tag must still reach abort()
    if tier == "quick":
        return ["g-san", "c-san", "g-rel"]
    return ["g-san", "c-san", "g-port", "c-intr", "g-rel", "c-rel"]


def run_prop(prop, tier, seed, only=None):
    res = core.Result(prop, tier, seed)
    ks = kernels(tier, seed)
    if only:
        ks = [k for k in ks if k[0] == only["kernel"]]
    nshards = 16 if tier == "quick" else 48
    if only:
        nshards = 1
    env = {"VERIF_SEED": str(seed), "VERIF_N": "20000" if tier == "quick" else "300000",
           "VERIF_LATTICE_STRIDE": "3" if tier == "quick" else "1"}
    jobs = []
    cfgs = configs(prop, tier) if not only else [only["config"]]
    for cfg in cfgs:
        for i, sh in enumerate(core.shard(ks, nshards)):
            jobs.append(core.Job("c06-%d" % i, core.tu("c06.h", sh), cfg, env=env, timeout=3600))
    chain_jobs = []
    if prop == "C07":
        # static_integer / static_number under the checked tags: C11's lock-step chains without narrowing conversions (those are C11's
        # recorded KF-C11-01) plus the run-time shift chains; only the event kind is judged here
        from . import c11
        cs = [(k["desc"], k["stmt"]) for k in c11.load()["kernels"] if "conv" not in k["desc"].split("ops=")[-1]][:60 if tier == "quick" else 400] + c11.shift_chains()
        if only:
            cs = [c for c in cs if c[0] == only["kernel"]]
        cenv = {"VERIF_SEED": str(seed), "VERIF_NRAND": "12" if tier == "quick" else "40", "VERIF_CHAIN_CASES": "3000" if tier == "quick" else "30000"}
        for cfg in (["g-san"] if tier == "quick" else ["g-san", "c-san", "g-port"]) if not only else [only["config"]]:
            for i, sh in enumerate(core.shard(cs, 1 if only else 16)):
                if sh:
                    chain_jobs.append(core.Job("c07chain-%d" % i, core.tu("c11.h", sh), cfg, env=cenv, timeout=7200))
    core.build_and_run(jobs + chain_jobs, prop)
    for j in jobs + chain_jobs:
        res.absorb(j)
        if j.died:
            res.inconclusive.append("binary %s[%s] died outside a guarded case (rc=%s)" % (j.name, j.config, j.rc))
    for v in res.violations:
        if v.get("job", "").startswith("c07chain-") and v["cls"].startswith("event:"):
            v["cls"] = "c07:chain:" + v["cls"]
    # C06 owns value/signal mismatches, C07 owns trap/abort/hang events
    if prop == "C06":
        res.violations = [v for v in res.violations if not v["cls"].startswith("c07:")]
    else:
        res.violations = [v for v in res.violations if "c07:" in v["cls"]]
    # minimum-observation rule
    need = ["exact==max", "exact==max+1", "exact==max-1", "exact==lowest", "exact==lowest-1", "exact==lowest+1", "signalled+", "signalled-"]
    if not only:
        for c in need:
            if res.classes.get(c, 0) < 100:
                res.inconclusive.append("too few observations of class %s (%d)" % (c, res.classes.get(c, 0)))
    res.extra["kernels_generated"] = len(ks)
    res.extra["detection_paths"] = {"g-san": "GCC intrinsic (__builtin_*_overflow)", "c-san": "Clang portable predicates", "g-port": "GCC forced portable (hook H2)", "c-intr": "Clang forced intrinsic (hook H2)"}
    return res


def run(tier, seed, only=None):
    res = run_prop("C06", tier, seed, only)
    return res.finish(RULE, assumptions=[
        "oracle: exact result on 256-bit sign-magnitude integers (rt/x256.h) from operand values; result type from decltype on plain integers",
        "float sources: values strictly between max and max+1 (lowest-1 and lowest) are a don't-care band; NaN has no exact result and is judged by C07 for its event kind only",
        "domain: divisor != 0, shift count >= 0", "UB traps/aborts are reported by C07, not here"])
