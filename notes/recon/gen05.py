import random,sys
random.seed(int(sys.argv[1])); N=int(sys.argv[2])
Ds=[1,2,7,8,9,15,16,17,31,32,33,62,63]
narrow=['signed char','unsigned char','int','unsigned','std::int64_t','short']
ops=['<','<=','>','>=','==','!=','neg','shl','shr','cmpint']
print('#include "h05.h"')
ks=[]
for i in range(N):
    d1=random.choice(Ds); d2=random.choice(Ds); n1=random.choice(narrow); n2=random.choice(narrow) if random.random()<0.5 else n1
    op=random.choice(ops); sh=random.choice([0,1,2,3,7,8,15,16,31,32,40,63])
    A=f'cnl::elastic_integer<{d1},{n1}>'; B=f'cnl::elastic_integer<{d2},{n2}>'
    s1=int('unsigned' not in n1); s2=int('unsigned' not in n2)
    if op=='neg': body='return mk(-a);'
    elif op=='shl': body=f'return mk(a << cnl::constant<{sh}>{{}});'
    elif op=='shr': body=f'return mk(a >> cnl::constant<{sh}>{{}});'
    elif op=='cmpint': body='return mkb((a < y) == (a < B(y)) && (a == y) == (a == B(y)) && (y > a)==(B(y) > a));'
    else: body=f'return mkb(a {op} b);'
    print(f'namespace k{i} {{ using A={A}; using B={B}; Out run(long long x,long long y){{ A a=cnl::_impl::from_rep<A>((cnl::_impl::rep_of_t<A>)x); B b=cnl::_impl::from_rep<B>((cnl::_impl::rep_of_t<B>)y); (void)b; {body} }} }}')
    ks.append((i,op,d1,s1,d2,s2,sh,f'{op} {A} {B} sh={sh}'))
print('Kern kerns[]={')
for (i,op,d1,s1,d2,s2,sh,desc) in ks: print(f' {{k{i}::run,"{op}",{d1},{s1},{d2},{s2},{sh},"{desc}"}},')
print('}; int nkerns=%d;'%len(ks))
