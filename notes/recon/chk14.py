import re,sys
from fractions import Fraction as F
from collections import Counter
cnt=Counter(); ex={}
digits={'std::int8_t':7,'std::uint8_t':8,'std::int16_t':15,'std::uint16_t':16,'int':31,'unsigned':32,'std::int64_t':63,'std::uint64_t':64}
pat=re.compile(r'^(-?)(\d*)(?:\.(\d*))?(?:e(-?\d+))?$')
maxratio=F(0); worst=None
for l in open('c14.log'):
    p=l.rstrip('\n').split(' ',9)
    name,E,R,raw,ln,rc,ec,ol,can=p[0],int(p[1]),int(p[2]),int(p[3]),int(p[4]),int(p[5]),int(p[6]),int(p[7]),int(p[8]); txt=p[9] if len(p)>9 else ''
    key=(name,E,R)
    if name=='std::uint64_t': continue
    def note(k): 
        cnt[k]+=1; ex.setdefault(k,(key,raw,ln,rc,ec,ol,txt))
    if can==0: note('CANARY')
    if rc==6: note('ABORT'); continue
    if rc==26: note('HANG'); continue
    if rc!=0: note('SIG%d'%rc); continue
    if ec!=0:
        if ec!=75 or ol!=ln: note('BADFAIL')
        else: cnt['fail_ok']+=1
        continue
    if not (0<ol<=ln): note('BADPTR'); continue
    m=pat.match(txt)
    if not m: note('NOPARSE'); continue
    sgn,ip,fp,e=m.groups(); fp=fp or ''; e=int(e) if e else 0
    if ip=='' and fp=='': note('NOPARSE'); continue
    if ip=='': cnt['leading_point']+=1; e=int(e) if e else 0
    t=F(int(ip+fp),10**len(fp))*F(10)**e
    if sgn: t=-t
    v=F(raw)*F(R)**E
    if (t<0)!=(v<0) and t!=0: note('SIGN'); continue
    if t==0: note('ZEROTEXT'); 
    if abs(t)>abs(v): note('EXCEEDS'); continue
    unit=F(10)**(e-len(fp))
    d=abs(v)-abs(t)
    # exactness clause
    av=abs(v); ip_=av.numerator//av.denominator; fr=av-ip_; fd=0
    while fr.denominator!=1: fr*=10; fd+=1
    full=str(ip_)+(('.'+str(int(av*10**fd)-ip_*10**fd).zfill(fd)) if fd else '')
    nsig=len((str(ip_)+(str(int(av*10**fd)-ip_*10**fd).zfill(fd) if fd else '')).strip('0'))
    need=len(full)+(1 if v<0 else 0)
    if nsig<=18 and ln>=need:
        cnt['exact_required']+=1
        if d!=0: note('NOT_EXACT_BUT_FITS')
    if d==0: cnt['exact']+=1; continue
    cnt['inexact']+=1
    if d>=unit:
        # significand-limit slack needed
        ratio=(d-unit)/abs(v) if d>unit else F(0)
        # relative error of excess
        rel=(d-unit)/abs(v)
        eps=F((abs(E)+1)*5, 2**63-1)
        if rel>eps: note('EPS_EXCEEDED')
        cnt['sigdigits_%d'%len((ip+fp).lstrip('0'))]+=1
        cnt['d>=unit']+=1; ex.setdefault('d>=unit',(key,raw,ln,txt,float(d/unit)))
        if rel>maxratio: maxratio=rel; worst=(key,raw,ln,txt,float(rel))
print(cnt)
for k,v in ex.items(): print(k,v)
print('max rel for d>=unit',float(maxratio),worst)
