#include <csetjmp>
#include <csignal>
#include "h09.h"
#include <vector>
#include <random>
extern Kern kerns[]; extern int nkerns;
static sigjmp_buf env; static void hh(int){ siglongjmp(env,1);} 
__attribute__((noinline)) static int call(Kern&k,long long a,Out&o){ if(sigsetjmp(env,1)==0){ o=k.run(a); return 0;} return 9; }
static i128 fdiv(i128 a,i128 b){ i128 q=a/b, r=a%b; if(r!=0 && ((r<0)!=(b<0))) --q; return q; }
static i128 roundq(i128 n,i128 d,int mode){ switch(mode){ case 3: return n/d; case 2: return fdiv(n,d); case 1: return fdiv(2*n+d,2*d); case 0: { i128 an=n<0?-n:n; i128 q=(2*an+d)/(2*d); return n<0?-q:q; } } return 0; }
int main(){ struct sigaction sa{}; sa.sa_handler=hh; sa.sa_flags=SA_NODEFER; sigaction(SIGILL,&sa,0); sigaction(SIGFPE,&sa,0);
 std::mt19937_64 g(9); long long total=0,viol=0,traps=0,ood=0;
 for(int i=0;i<nkerns;i++){ Kern&K=kerns[i]; int kv=0,kt=0; std::vector<long long> xs; i128 mx=((i128)1<<K.d1)-1, mn=K.s1? -((i128)1<<K.d1):0;
   if(K.d1<=16) for(long long x=(long long)mn;x<=(long long)mx;x++) xs.push_back(x); else { for(long long d=0;d<40;d++){ xs.push_back((long long)(mx-d)); xs.push_back((long long)(mn+d)); xs.push_back(d); if(K.s1) xs.push_back(-d);} int s=K.e2-K.e1; for(int r=0;r<3000;r++){ unsigned long long u=g()>>(g()%64); long long t=(long long)(u%((unsigned long long)mx+1)); if(K.s1&&(g()&1)) t=-t; xs.push_back(t); if(s>0&&s<60){ long long h=(t>>s<<s)+(1LL<<(s-1)); for(long long dd=-1;dd<=1;dd++){ long long c=h+dd; if(c<=mx&&c>=mn) xs.push_back(c);} } } }
   i128 dmx=((i128)1<<K.d2)-1, dmn=K.s2? -((i128)1<<K.d2):0;
   for(long long x:xs){ int s=K.e1-K.e2; i128 want= s>=0? (i128)x*((i128)1<<s) : roundq(x,(i128)1<<(-s),K.t); if(want>dmx||want<dmn){ ood++; continue; }
     Out o; int rc=call(K,x,o); total++; if(rc){ traps++; if(kt++<200000) printf("TRAP %s x=%lld want=%lld\n",K.desc,x,(long long)want); continue; }
     if(o.v!=want){ viol++; if(kv++<200000) printf("VIOL %s x=%lld got=%lld want=%lld\n",K.desc,x,(long long)o.v,(long long)want); } } }
 printf("total=%lld viol=%lld traps=%lld ood=%lld kernels=%d\n",total,viol,traps,ood,nkerns); }
