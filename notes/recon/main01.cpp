#include <csetjmp>
#include <csignal>
#include "h01.h"
#include <vector>
#include <random>
#include <string>
extern Kern kerns[]; extern int nkerns;
static sigjmp_buf env; static void hh(int s){ siglongjmp(env,s);} 
__attribute__((noinline)) static int call(Kern&k,long long a,long long b,Out&o){ int s=sigsetjmp(env,1); if(s==0){ o=k.run(a,b); return 0;} return s; }
static i128 ipow(int r,int n){ i128 p=1; while(n-->0) p*=r; return p; }
struct Ty{int w;bool s;}; static Ty prom(int d,int s){ int w=d+s; w = w<=8?8:w<=16?16:w<=32?32:64; if(w<32) return {32,true}; return {w,(bool)s}; }
static Ty common(Ty a,Ty b){ if(a.s==b.s) return {a.w>b.w?a.w:b.w,a.s}; Ty sg=a.s?a:b, us=a.s?b:a; if(us.w>=sg.w) return {us.w,false}; return {sg.w,true}; }
static bool fits(i128 v,Ty t){ i128 mx=t.s?(((i128)1<<(t.w-1))-1):(((i128)1<<t.w)-1), mn=t.s?-((i128)1<<(t.w-1)):0; return v>=mn&&v<=mx; }
int main(){ struct sigaction sa{}; sa.sa_handler=hh; sa.sa_flags=SA_NODEFER; for(int s:{SIGILL,SIGFPE,SIGABRT}) sigaction(s,&sa,0); std::mt19937_64 g(1); long long total=0,viol=0,ood=0,traps=0;
 for(int i=0;i<nkerns;i++){ Kern&K=kerns[i]; std::string op=K.op; int kv=0,kt=0;
  auto fill=[&](std::vector<long long>&v,int d,int s,char k){ unsigned long long mx= d==64?~0ULL:((1ULL<<d)-1); if(d<=8){ for(long long t=(s? (k=='e'?-(long long)mx:-(long long)mx-1):0); t<=(long long)mx; t++) v.push_back(t); return;} for(long long t:{0LL,1LL,2LL,3LL,5LL,7LL,10LL,100LL}) {v.push_back(t); if(s) v.push_back(-t);} for(long long dd=0;dd<3;dd++){ v.push_back((long long)(mx-dd)); if(s) v.push_back(-(long long)(mx-dd)); } if(s&&k=='b') v.push_back(-(long long)mx-1); for(int r=0;r<25;r++){ unsigned long long u=g()>>(g()%64); if(d<64) u%=(mx+1); v.push_back((long long)u); if(s) v.push_back(-(long long)(u>>1)); } };
  std::vector<long long> xs,ys; fill(xs,K.d1,K.s1,K.k1); fill(ys,K.d2,K.s2,K.k2); if(op=="neg") ys={0};
  int emin=K.e1<K.e2?K.e1:K.e2; 
  for(long long x:xs) for(long long y:ys){ i128 X=x,Y=y; if(!K.s1&&K.d1==64) X=(i128)(unsigned long long)x; if(!K.s2&&K.d2==64) Y=(i128)(unsigned long long)y;
    // domain for builtin reps
    Ty pl=prom(K.d1,K.s1), pr=prom(K.d2,K.s2); bool elastic=(K.k1=='e'||K.k2=='e');
    i128 ax=X*ipow(K.rad,K.e1-emin), ay=Y*ipow(K.rad,K.e2-emin); i128 want=0; bool cmp=false,wb=false; int wexp=0;
    bool ind=true;
    if(op=="add"||op=="sub"||op=="lt"||op=="eq"){ if(!elastic){ if(!fits(ax,pl)||!fits(ay,pr)) ind=false; Ty c=common(pl,pr); want= op=="sub"?ax-ay:ax+ay; if((op=="add"||op=="sub")&&!fits(want,c)) ind=false; if(op=="lt"||op=="eq"){ if(pl.s!=pr.s){ if(!fits(ax,c)||!fits(ay,c)) ind=false; } } } else { want= op=="sub"?ax-ay:ax+ay; if((K.k1=='b'&&!fits(ax,pl))||(K.k2=='b'&&!fits(ay,pr))) ind=false; if((K.k1=='b'||K.k2=='b')&&( (ax>((i128)1<<62))||(ay>((i128)1<<62))||(-ax>((i128)1<<62))||(-ay>((i128)1<<62)))) ind=false; } wexp=emin; if(op=="lt"){cmp=true;wb=ax<ay;} if(op=="eq"){cmp=true;wb=ax==ay;} }
    else if(op=="mul"){ want=X*Y; wexp=K.e1+K.e2; if(!elastic){ if(!fits(want,common(pl,pr))) ind=false; } else if(K.k1=='b'||K.k2=='b'){ if(want>((i128)1<<62)||-want>((i128)1<<62)) ind=false; } }
    else { want=-X; wexp=K.e1; if(K.k1=='b'&&!fits(want,pl)) ind=false; }
    if(!ind){ ood++; continue; }
    Out o; int rc=call(K,x,y,o); total++; if(rc){ traps++; if(kt++<2) printf("TRAP sig=%d %s x=%lld y=%lld\n",rc,K.desc,x,y); continue; }
    bool ok; if(cmp) ok=(o.b==wb); else { i128 v=o.v; if(!o.sg&&o.bits==64&&v<0) v+=((i128)1<<64); ok=(v==want&&o.exp==wexp&&o.radix==K.rad); }
    if(!ok){ viol++; if(kv++<2) printf("VIOL %s x=%lld y=%lld got=%lld exp=%d want=%lld wexp=%d b=%d\n",K.desc,x,y,(long long)o.v,o.exp,(long long)want,wexp,(int)o.b); } } }
 printf("total=%lld viol=%lld traps=%lld ood=%lld kernels=%d\n",total,viol,traps,ood,nkerns); }
