import random
random.seed(5)
def tok(base,nd,sep):
    ds={2:'01',8:'01234567',10:'0123456789',16:'0123456789abcdefABCDEF'}[base]
    first=random.choice(ds[1:])
    s=first+''.join(random.choice(ds) for _ in range(nd-1))
    if random.random()<0.2: s=first+random.choice(['0'*(nd-1), (ds[-1] if base!=16 else 'f')*(nd-1)])
    if sep and nd>1:
        out=s[0]
        for c in s[1:]:
            if random.random()<0.3: out+="'"
            out+=c
        s=out
    return {2:'0b',8:'0',10:'',16:'0x'}[base]+s
for kind,bits in (('i64',63),('i128',127),('w200',200)):
    for base in (2,8,10,16):
        import math
        maxd=int(bits/math.log2(base))
        for nd in range(1,maxd+1):
            for rep in range(6):
                for sg in ('','-','+'):
                    t=tok(base,nd,rep%2)
                    print(kind,sg+t)
print('i64 0'); print('i128 0'); print('w200 0'); print('i64 00'); print('i64 -0'); print("i64 0'0"); print('i64 0x0'); print('i64 0b0')
