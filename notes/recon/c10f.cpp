#include <cnl/all.h>
#include <cstdio>
#include <cmath>
#include <random>
#include <sstream>
template<class W> std::string dec(W const& v){ std::ostringstream o; o<<v; return o.str(); }
template<class W> void run(const char*name){ std::mt19937_64 g(10);
  { std::ostringstream a,b; a<<std::numeric_limits<W>::max(); b<<std::numeric_limits<W>::lowest(); printf("LIM %s %s %s %d\n",name,a.str().c_str(),b.str().c_str(),(int)cnl::digits_v<W>); }
  for(int i=0;i<3000;i++){ int e=(int)(g()%230)-10; double m=1+(double)(g()>>11)/9007199254740992.0; double x=std::ldexp(m,e); if(g()&1) x=-x; if(!std::numeric_limits<W>::is_signed) x=std::fabs(x);
    W w=static_cast<W>(x); printf("FROMD %s %a %s\n",name,x,dec(w).c_str());
    float xf=(float)std::ldexp(m,e%120); W wf=static_cast<W>(xf); printf("FROMF %s %a %s\n",name,(double)xf,dec(wf).c_str());
    long double xl=std::ldexp((long double)1+(long double)g()/18446744073709551616.0L,e); W wl=static_cast<W>(xl); printf("FROML %s %La %s\n",name,xl,dec(wl).c_str());
    // to float: build random wide value from two doubles
    W v=static_cast<W>(std::ldexp(m,e)); v = v*W{1000003} + W{(long long)(g()>>3)}; if((g()&1)&&std::numeric_limits<W>::is_signed) v=-v;
    double d=static_cast<double>(v); float f=static_cast<float>(v); long double ld=static_cast<long double>(v);
    printf("TOD %s %s %a %a %La\n",name,dec(v).c_str(),d,(double)f,ld);
    W u=v; ++u; W t=v; --t; W pu=v; W r1=pu++; W pt=v; W r2=pt--; printf("INC %s %s %s %s %s %s %s %s\n",name,dec(v).c_str(),dec(u).c_str(),dec(t).c_str(),dec(r1).c_str(),dec(pu).c_str(),dec(r2).c_str(),dec(pt).c_str());
  } }
int main(){ run<cnl::wide_integer<200,int>>("s200"); run<cnl::wide_integer<256,unsigned>>("u256"); run<cnl::wide_integer<129,std::int8_t>>("s129_8"); run<cnl::wide_integer<300,std::int64_t>>("s300_64"); }
