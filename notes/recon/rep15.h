#include <sstream>
inline std::string s128(__int128 v){ bool n=v<0; unsigned __int128 u=n?-(unsigned __int128)v:(unsigned __int128)v; std::string s; do{ s.insert(s.begin(),char('0'+(int)(u%10))); u/=10;}while(u); if(n)s.insert(s.begin(),'-'); return s; }
template<class T> struct info { static void p(T const& v){ std::ostringstream o; o<<v; printf("digits=%d text=%s", (int)cnl::digits_v<T>, o.str().c_str()); } };
template<auto V> struct info<cnl::constant<V>> { static void p(cnl::constant<V> const&){ printf("constant bits=%d text=%s",(int)(sizeof(V)*8), s128(V).c_str()); } };
template<class R,int E,int Rx> struct info<cnl::scaled_integer<R,cnl::power<E,Rx>>> { static void p(cnl::scaled_integer<R,cnl::power<E,Rx>> const& v){ std::ostringstream o; o<<cnl::_impl::to_rep(v); printf("scaled digits=%d exp=%d radix=%d signed=%d rep=%s",(int)cnl::digits_v<R>,E,Rx,(int)cnl::numbers::signedness_v<R>,o.str().c_str()); } };
template<class T> void rep(const char*tok,const char*suf,T const& v){ printf("%s %s ",tok,suf); info<T>::p(v); printf("\n"); }
