#!/bin/bash
python3 gen05.py $1 $2 > k05.cpp
for it in 1 2 3 4 5 6; do
  timeout 900 g++ -std=gnu++20 -O1 -g -I/repo/include -DCNL_DEBUG -fsanitize=undefined -fsanitize-undefined-trap-on-error -fmax-errors=0 -c k05.cpp -o k05.o 2> err05.txt && break
  grep -E "^k05.cpp:[0-9]+:[0-9]+: error|^k05.cpp:[0-9]+:[0-9]+:   required from here" err05.txt | grep -oE "^k05.cpp:[0-9]+" | sort -u | cut -d: -f2 > bad05.txt
  echo "iteration $it: $(wc -l < bad05.txt) bad lines"
  python3 - <<'PY'
import re
bad=set(int(l) for l in open('bad05.txt'))
lines=open('k05.cpp').read().split('\n')
badk=set()
for b in bad:
    m=re.match(r'namespace k(\d+) ',lines[b-1])
    if m: badk.add(m.group(1)); print('NOINST',re.search(r'using A=(.*?); using B=(.*?); Out',lines[b-1]).groups(), re.search(r'return (.*?);',lines[b-1]).group(1))
out=[l for l in lines if not (re.match(r'namespace k(\d+) ',l) and re.match(r'namespace k(\d+) ',l).group(1) in badk) and not (re.match(r' \{k(\d+)::run',l) and re.match(r' \{k(\d+)::run',l).group(1) in badk)]
n=sum(1 for l in out if l.startswith(' {k'))
out=[re.sub(r'int nkerns=\d+','int nkerns=%d'%n,l) for l in out]
open('k05.cpp','w').write('\n'.join(out))
PY
done
g++ -std=gnu++20 -O1 -g -I/repo/include -DCNL_DEBUG -fsanitize=undefined -fsanitize-undefined-trap-on-error main05.cpp k05.o -o r05 2>&1 | grep error | head
