#include <csetjmp>
#include <csignal>
#include "h06.h"
#include <vector>
#include <random>
#include <cstring>
#include <string>
extern Kern kerns[]; extern int nkerns;
static sigjmp_buf env; static volatile int in_case; static Kern*curk; static long long cura,curb; static void hh(int s){ if(!in_case){ fflush(stdout); fprintf(stderr,"OUT-OF-CASE sig=%d kernel=%s %d %d %d %d a=%lld b=%lld\n",s,curk->op,curk->lw,curk->ls,curk->rw,curk->rs,cura,curb); _exit(2);} siglongjmp(env,s);} 
// outcome codes: 0 value, 1 throw+, 2 throw-, 3 trap(sig), 4 abort
__attribute__((noinline)) static int call(Kern&k,unsigned long long a,unsigned long long b,Out&o){ int s=sigsetjmp(env,1); if(s==0){ in_case=1; try{ o=k.run(a,b); in_case=0; return 0;}catch(std::overflow_error&e){ in_case=0; return strstr(e.what(),"positive")?1:2; } } in_case=0; return s==SIGABRT?4:3; }
static std::vector<i128> vals(int w,int s,std::mt19937_64&g){ std::vector<i128> v; i128 mx= s? (((i128)1<<(w-1))-1) : (((i128)1<<w)-1); i128 mn= s? -((i128)1<<(w-1)):0;
  if(w==8){ for(i128 x=mn;x<=mx;x++) v.push_back(x); return v; }
  for(int d=0;d<4;d++){ v.push_back(mx-d); v.push_back(mn+d); v.push_back(d); if(s) v.push_back(-d);} for(int b=1;b<w;b++) for(int d=-1;d<=1;d++){ i128 t=((i128)1<<b)+d; if(t<=mx) v.push_back(t); if(s&&-t>=mn) v.push_back(-t);} for(int r=0;r<40;r++){ unsigned long long u=g()>>(g()%64); i128 t=(i128)u; if(w<64) t%= (mx+1); if(t>mx) t=mx; v.push_back(t); if(s) v.push_back(-t>=mn?-t:mn);} return v; }
int main(){ struct sigaction sa{}; sa.sa_handler=hh; sa.sa_flags=SA_NODEFER; for(int s:{SIGILL,SIGFPE,SIGABRT,SIGSEGV}) sigaction(s,&sa,0); std::mt19937_64 g(6);
 for(int i=0;i<nkerns;i++){ Kern&K=kerns[i]; std::string op=K.op; auto A=vals(K.lw,K.ls,g); std::vector<i128> B; if(op=="shl"){ for(int c=0;c<=2*64+1 && c<= (K.rw==8? (K.rs?127:255) : 200); c++) B.push_back(c); } else B=vals(K.rw,K.rs,g);
   for(i128 a:A) for(i128 b:B){ if(op=="div"&&b==0) continue; Out o{}; curk=&K;cura=(long long)a;curb=(long long)b; int rc=call(K,(unsigned long long)a,(unsigned long long)b,o);
     // print compactly: kernel a b rc value
     printf("%d %lld %lld %d %lld %d %d\n",i,(long long)a,(long long)b,rc,(long long)o.v,o.rw,(int)o.rs); } }
 for(int i=0;i<nkerns;i++) printf("K %d %s %d %d %d %d\n",i,kerns[i].op,kerns[i].lw,kerns[i].ls,kerns[i].rw,kerns[i].rs); }
