#include <cnl/all.h>
#include <cstdio>
#include <csetjmp>
#include <csignal>
#include <cstring>
#include <random>
#include <sys/time.h>
using namespace cnl;
static sigjmp_buf env; static volatile int lastsig;
static void h(int s){ lastsig=s; siglongjmp(env,1);} 
static std::mt19937_64 g(7);
template<class Rep,int E,int R> __attribute__((noinline)) int one(long long raw,int len,char*buf,int&outlen,int&ec){
  using T=scaled_integer<Rep,power<E,R>>;
  if(sigsetjmp(env,1)==0){ struct itimerval tv{{0,0},{0,50000}}; setitimer(ITIMER_VIRTUAL,&tv,0);
    T v=_impl::from_rep<T>((Rep)raw); auto r=cnl::to_chars(buf,buf+len,v); struct itimerval z{}; setitimer(ITIMER_VIRTUAL,&z,0); outlen=(int)(r.ptr-buf); ec=(int)r.ec; return 0; }
  struct itimerval z{}; setitimer(ITIMER_VIRTUAL,&z,0); return lastsig; }
template<class Rep,int E,int R> void run(const char*name){
  std::vector<long long> vs; long long mx=(long long)std::numeric_limits<Rep>::max(), mn=(long long)std::numeric_limits<Rep>::lowest();
  for(long long t:{1LL,2LL,3LL,5LL,7LL,9LL,10LL,11LL,99LL,100LL,101LL,125LL,127LL,128LL,255LL,256LL,999LL,1000LL,1024LL,12345LL,65535LL,65536LL,99999LL,100000LL,1000000LL,mx,mx-1,mx/2,mx/3,mx/10,mx/10+1,mx/5}) { if(t<=mx) vs.push_back(t); if(-t>=mn) vs.push_back(-t);} if(mn<0) {vs.push_back(mn+1);}
  for(int i=0;i<60;i++){ int bits=g()%64; unsigned long long u=g()>>(63-bits); long long t=(long long)(u% (unsigned long long)mx); vs.push_back(t); if(mn<0) vs.push_back(-t);} 
  int hangs=0;
  for(long long raw:vs){ if(raw==0) continue; for(int len=0;len<=48;len++){ if(hangs>=3) return; char arena[80]; memset(arena,'#',80); char*buf=arena+8; int ol=0,ec=0; int rc=one<Rep,E,R>(raw,len,buf,ol,ec);
     bool canary=true; for(int i=0;i<8;i++) if(arena[i]!='#') canary=false; for(int i=8+len;i<80;i++) if(arena[i]!='#') canary=false;
     if(rc==SIGVTALRM) hangs++;
     printf("%s %d %d %lld %d %d %d %d %d %.*s\n",name,E,R,raw,len,rc,ec,ol,(int)canary,(rc==0&&ec==0&&ol>=0&&ol<=len)?ol:0,buf); } }
}
int main(){ struct sigaction sa{}; sa.sa_handler=h; sa.sa_flags=SA_NODEFER; sigaction(SIGABRT,&sa,0); sigaction(SIGILL,&sa,0); sigaction(SIGSEGV,&sa,0); sigaction(SIGVTALRM,&sa,0); sigaction(SIGFPE,&sa,0);
#define RUN(Rep,E,R) run<Rep,E,R>(#Rep);
 RUN(std::int8_t,-3,2) RUN(std::int8_t,-7,2) RUN(std::uint8_t,-8,2) RUN(std::int8_t,-20,2) RUN(std::int8_t,2,2) RUN(std::uint8_t,5,2)
 RUN(std::int16_t,-8,2) RUN(std::int16_t,-15,2) RUN(std::uint16_t,-16,2) RUN(std::int16_t,-40,2) RUN(std::int16_t,7,2)
 RUN(int,-16,2) RUN(int,-31,2) RUN(int,-1,2) RUN(unsigned,-32,2) RUN(int,-50,2) RUN(int,-70,2) RUN(int,10,2) RUN(int,30,2)
 RUN(std::int64_t,-32,2) RUN(std::int64_t,-63,2) RUN(std::uint64_t,-64,2) RUN(std::int64_t,-70,2) RUN(std::int64_t,-10,2) RUN(std::int64_t,3,2) RUN(std::int64_t,40,2)
 RUN(int,-3,10) RUN(int,-9,10) RUN(std::int64_t,-18,10) RUN(int,2,10) RUN(std::int16_t,-6,10) RUN(std::int64_t,-30,10) RUN(int,5,10)
}
