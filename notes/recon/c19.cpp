#include <cnl/all.h>
#include <cstdio>
#include <random>
typedef unsigned __int128 u128; typedef __int128 i128;
static long long total=0,bad=0;
template<class T> void chk(T x,const char*n){ auto r=cnl::sqrt(x); u128 R=(u128)r, X=(u128)x; total++; if(!(R*R<=X && (R+1)*(R+1)>X)) { if(bad++<10) printf("BAD %s x=%llu r=%llu\n",n,(unsigned long long)x,(unsigned long long)r);} }
template<int D,class N> void chke(unsigned long long raw,const char*n){ using E=cnl::elastic_integer<D,N>; E x=cnl::_impl::from_rep<E>((cnl::_impl::rep_of_t<E>)raw); auto r=cnl::sqrt(x); u128 R=(u128)cnl::_impl::to_rep(r), X=raw; total++; constexpr int RD=cnl::digits_v<decltype(r)>; if(!(R*R<=X && (R+1)*(R+1)>X) || RD!=(D+1)/2 || R>(((u128)1<<RD)-1)) { if(bad++<10) printf("BAD elastic<%d,%s> x=%llu r=%llu rd=%d\n",D,n,raw,(unsigned long long)R,RD);} }
template<class Rep,int E> void chks(long long raw){ using S=cnl::scaled_integer<Rep,cnl::power<E>>; S x=cnl::_impl::from_rep<S>((Rep)raw); auto r=cnl::sqrt(x); using RT=decltype(r); u128 R=(u128)cnl::_impl::to_rep(r), X=(u128)raw; total++; constexpr int re=cnl::_impl::tag_of_t<RT>::exponent; if(!(R*R<=X && (R+1)*(R+1)>X) || re!=E/2) { if(bad++<10) printf("BAD scaled e=%d x=%lld r=%llu re=%d\n",E,raw,(unsigned long long)R,re);} }
template<int D> void elastic_all(std::mt19937_64&g){ unsigned long long mx= D==64? ~0ULL : ((1ULL<<D)-1); for(unsigned long long d=0; d<2000 && d<=mx; d++){ chke<D,int>(mx-d,"int"); chke<D,int>(d,"int"); if constexpr(D<=63) chke<D,signed char>(mx-d,"schar"); } for(int i=0;i<20000;i++){ unsigned long long v=(g()>>(g()%64)); if(D<64) v%= (mx+1); chke<D,int>(v,"int"); unsigned long long k=v>>((D+1)/2 <64?(64-(D+1)/2>63?63:0):0); (void)k; } if constexpr(D<63) elastic_all<D+1>(g); }
int main(){ std::mt19937_64 g(19);
 for(unsigned v=0;v<65536;v++){ chk<std::uint16_t>((std::uint16_t)v,"u16"); if(v<32768) chk<std::int16_t>((std::int16_t)v,"i16"); if(v<256) chk<std::uint8_t>((std::uint8_t)v,"u8"); if(v<128) chk<std::int8_t>((std::int8_t)v,"i8"); }
 for(unsigned long long d=0; d<3000000; d++){ chk<std::uint32_t>(0xffffffffu-(unsigned)d,"u32"); chk<std::int32_t>(0x7fffffff-(int)d,"i32"); chk<std::uint64_t>(~0ULL-d,"u64"); chk<std::int64_t>(0x7fffffffffffffffLL-(long long)d,"i64"); }
 for(int i=0;i<3000000;i++){ unsigned long long k=g()>>(32+g()%32); chk<std::uint64_t>(k*k,"u64sq"); if(k) chk<std::uint64_t>(k*k-1,"u64sq-1"); chk<std::uint64_t>(k*k+1,"u64sq+1"); chk<std::uint32_t>((std::uint32_t)g(),"u32r"); chk<std::uint64_t>(g()>>(g()%64),"u64r"); }
 elastic_all<1>(g);
 for(long long v=0; v<32768; v++){ chks<std::int16_t,-8>(v); chks<std::int16_t,-14>(v); chks<std::int16_t,6>(v); chks<std::uint16_t,-16>(v*2+1); }
 for(long long d=0; d<200000; d++){ chks<std::int32_t,-16>(0x7fffffff-d); chks<std::int32_t,-30>(d); chks<std::int64_t,-32>(0x7fffffffffffffffLL-d); chks<std::int64_t,-60>((long long)(g()>>1)); chks<std::int32_t,20>((long long)(g()>>33)); }
 printf("total=%lld bad=%lld\n",total,bad); }
