import sys
from collections import Counter
path=sys.argv[1]
K={}
for l in open(path):
    if l.startswith('K '):
        p=l.split(); K[int(p[1])]=(p[2],int(p[3]),int(p[4]),int(p[5]),int(p[6]))
def promote(w,s): return (32,1) if w<32 else (w,s)
def common(l,r):
    (lw,ls),(rw,rs)=promote(*l),promote(*r)
    if ls==rs: return (max(lw,rw),ls)
    (sw,uw)=(lw,rw) if ls else (rw,lw)
    if uw>=sw: return (uw,0)
    return (sw,1)
c=Counter(); ex={}
names={0:'VAL',1:'THR+',2:'THR-',3:'TRAP',4:'ABORT'}
def sg(x): return '0' if x==0 else ('+' if x>0 else '-')
n=0
for l in open(path):
    if l[0]=='K': continue
    p=l.split(); k=int(p[0]); op,lw,ls,rw,rs=K[k]; a=int(p[1]); b=int(p[2]); rc=int(p[3]); v=int(p[4])
    if not ls and a<0: a+=1<<64
    if not rs and b<0: b+=1<<64
    R=promote(lw,ls) if op=='shl' else common((lw,ls),(rw,rs))
    Rw,Rs=R; mx=(1<<(Rw-1))-1 if Rs else (1<<Rw)-1; mn=-(1<<(Rw-1)) if Rs else 0
    if op=='add': e=a+b
    elif op=='sub': e=a-b
    elif op=='mul': e=a*b
    elif op=='div': e=abs(a)//abs(b)*(1 if (a<0)==(b<0) else -1)
    else: e=a<<b if b<300 else (0 if a==0 else (1<<400)*(1 if a>0 else -1))
    exp='VAL' if mn<=e<=mx else ('THR+' if e>mx else 'THR-')
    obs=names[rc]
    if obs=='VAL':
        if not Rs and v<0: v+=1<<64
        if Rw<64 and not Rs: v&= (1<<64)-1
    n+=1
    ok = (obs==exp) and (obs!='VAL' or v==e)
    if ok: c[('ok',op)]+=1; continue
    detail=''
    if obs=='VAL' and exp=='VAL': detail='wrongvalue'
    key=(op,'L'+('s' if ls else 'u'),'R'+('s' if rs else 'u'),'Res'+('s' if Rs else 'u'),'a'+sg(a),'b'+sg(b),'exp='+exp,'obs='+obs+detail)
    c[key]+=1; ex.setdefault(key,(lw,rw,a,b,v if obs=='VAL' else None,e))
print(n,'cases')
for k,v in sorted(c.items(),key=lambda kv:(str(kv[0][0]),kv[0])): 
    if k[0]=='ok': continue
    print(v,' '.join(k),ex[k])
print({k:v for k,v in c.items() if k[0]=='ok'})
