import random,sys
random.seed(int(sys.argv[1])); N=int(sys.argv[2])
reps=[('std::int8_t',7,1,'b'),('std::uint8_t',8,0,'b'),('std::int16_t',15,1,'b'),('std::uint16_t',16,0,'b'),('std::int32_t',31,1,'b'),('std::uint32_t',32,0,'b'),('std::int64_t',63,1,'b'),
      ('cnl::elastic_integer<7>',7,1,'e'),('cnl::elastic_integer<15,unsigned>',15,0,'e'),('cnl::elastic_integer<24>',24,1,'e'),('cnl::elastic_integer<31>',31,1,'e')]
ops=['div','mod','quot']
print('#include "h01.h"')
ks=[]
for i in range(N):
    r1=random.choice(reps); r2=random.choice(reps); rad=random.choice([2,2,10]); op=random.choice(ops)
    if op=='quot': rad=2
    if rad==2: e1=random.choice([-30,-16,-8,-3,-1,0,1,8]); e2=random.choice([-30,-16,-8,-3,-1,0,1,8])
    else: e1=random.choice([-4,-2,-1,0,1,2]); e2=random.choice([-4,-2,-1,0,1,2])
    A=f'cnl::scaled_integer<{r1[0]},cnl::power<{e1},{rad}>>'; B=f'cnl::scaled_integer<{r2[0]},cnl::power<{e2},{rad}>>'
    body={'div':'return mk(a / b);','mod':'return mk(a % b);','quot':'return mk(cnl::quotient(a, b));'}[op]
    print(f'namespace k{i} {{ using A={A}; using B={B}; Out run(long long x,long long y){{ A a=deep<A>(x); B b=deep<B>(y); {body} }} }}')
    ks.append((i,op,r1,e1,r2,e2,rad,f'{op} {A} {B}'))
print('Kern kerns[]={')
for (i,op,r1,e1,r2,e2,rad,desc) in ks: print(f' {{k{i}::run,"{op}",{r1[1]},{r1[2]},\'{r1[3]}\',{e1},{r2[1]},{r2[2]},\'{r2[3]}\',{e2},{rad},"{desc}"}},')
print('}; int nkerns=%d;'%len(ks))
