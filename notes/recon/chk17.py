import sys
from fractions import Fraction as F
from collections import Counter
c=Counter(); ex={}
D={'16':15,'32':31,'64':63}
for l in open(sys.argv[1]):
    p=l.split(); T,fk,hx,rc,n,d=p[0],p[1],p[2],int(p[3]),int(p[4]),int(p[5])
    x=F(float.fromhex(hx)) if fk!='l' else None
    if fk=='l':
        # parse long double hex exactly
        s=hx; neg=s.startswith('-'); s=s.lstrip('-')
        mant,exp=s[2:].split('p'); 
        if '.' in mant: ip,fp=mant.split('.')
        else: ip,fp=mant,''
        x=F(int(ip+fp,16),16**len(fp))*F(2)**int(exp)
        if neg:x=-x
    key=(T,fk)
    def note(k):
        c[(k,)+key]+=1; ex.setdefault((k,)+key,l.strip())
    if rc==26: note('HANG'); continue
    if rc!=0: note('SIG%d'%rc); continue
    mx=2**D[T]-1
    if d<=0: note('DEN<=0'); continue
    q=F(n,d)
    if x!=0 and (q>0)!=(x>0) and q!=0: note('SIGN'); continue
    # exact ratio representable?
    rep = abs(x.numerator)<=mx and x.denominator<=mx
    if rep:
        if q!=x: note('NOT_EXACT_REPRESENTABLE')
        else: c[('ok_exact',)+key]+=1
        continue
    ax=abs(x); fl=ax.numerator//ax.denominator
    if not (fl<=abs(q)<=fl+1): note('NOT_BETWEEN_INTS'); continue
    bound=max(F(1),ax)*F(2)**(4-D[T])
    if abs(q-x)>=bound: note('ERR>=BOUND'); 
    else: c[('ok_approx',)+key]+=1
for k,v in sorted(c.items()): print(v,k,ex.get(k,''))
