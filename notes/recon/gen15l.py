import random
random.seed(11)
lines=[]
def add(tok,suffix): lines.append((tok,suffix))
# _c integers
for nd in list(range(1,20))+[20,21,30,38,39]:
    add('9'*nd,'_c'); add('1'+'0'*(nd-1),'_c')
for nd in [1,2,8,15,16,17,31,32]:
    add('0x'+'f'*nd,'_c'); add('0x1'+'0'*(nd-1),'_c')
for nd in [1,7,8,31,32,63,64,65,127]:
    add('0b'+'1'*nd,'_c')
for nd in [1,2,21,22,42]:
    add('0'+'7'*nd,'_c')
add("1'000'000",'_c'); add('0','_c')
# _wide
for nd in [1,18,19,20,36,37,38,39,40,54,55,100,300,616]:
    add('9'*nd,'_wide'); add('1'+'0'*(nd-1),'_wide'); add('4'+'9'*(nd-1),'_wide'); add('5'+'0'*(nd-1),'_wide')
for nd in [1,15,16,30,31,45,100,256,512]:
    add('0x'+'f'*nd,'_wide'); add('0x8'+'0'*(nd-1),'_wide'); add('0x7'+'f'*(nd-1),'_wide')
for nd in [63,64,126,127,128,200]:
    add('0b'+'1'*nd,'_wide')
for nd in [21,22,42,43,100]:
    add('0'+'7'*nd,'_wide'); add('0'+'3'+'7'*(nd-1),'_wide'); add('0'+'4'+'0'*(nd-1),'_wide')
# _cnl / _cnl2
for t in ['0','1','2','10','100','1000','1024','65536','4294967296','18446744073709551615','1.5','0.5','.5','0.25','0.125','1.25','10.0','10.5','1.0','2.50','0.1','0.3','3.14159','123.456','0.001','100.0','1000000.5','0.0009765625','12345678901234567.5','0.000000000000000001','999999999999999999','1234567890123456789','0x10','0b101','017']:
    add(t,'_cnl')
for t in ['0','1','2','3','4','8','10','1024','65536','1.5','0.5','0.25','0.125','1.25','10.0','10.5','1.0','2.50','0.375','0.0009765625','3.0625','0x10','0b1000','0.1']:
    add(t,'_cnl2')
print('#include <cnl/all.h>\n#include <cstdio>\n#include <string>\nusing namespace cnl::literals;')
print('template<class T> void rep(const char*tok,const char*suf,T const& v);')
print('#include "rep15.h"')
print('int main(){')
for i,(t,s) in enumerate(lines):
    print(f'  {{ auto v = {t}{s}; rep("{t}","{s}",v); }}')
print('}')
