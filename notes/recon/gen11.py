import random, sys
random.seed(int(sys.argv[1]) if len(sys.argv)>1 else 1)
N=int(sys.argv[2]) if len(sys.argv)>2 else 120
rtags=['cnl::nearest_rounding_tag','cnl::tie_to_pos_inf_rounding_tag','cnl::neg_inf_rounding_tag','cnl::native_rounding_tag']
narrow=['int','std::int8_t','std::int16_t']
ops=[('add','+'),('sub','-'),('mul','*'),('div','/'),('lt','<'),('eq','=='),('neg','neg'),('conv','conv'),('mod','%')]
print('#include "h11.h"')
ks=[]
for i in range(N):
    d1=random.choice([1,2,3,7,8,9,15,16,17,24,30,31]); d2=random.choice([1,2,3,7,8,9,15,16,17,24,30,31])
    r=random.randrange(4); n=random.choice(narrow); op=random.choice(ops)
    sn=random.random()<0.5
    e1=random.choice([-12,-7,-4,-1,0,1,3,6]); e2=random.choice([-12,-7,-4,-1,0,1,3,6])
    if sn:
        A=f'cnl::static_number<{d1},{e1},{rtags[r]},TH,{n}>'; B=f'cnl::static_number<{d2},{e2},{rtags[r]},TH,{n}>'
    else:
        e1=e2=0
        A=f'cnl::_impl::static_integer<{d1},{rtags[r]},TH,{n}>'; B=f'cnl::_impl::static_integer<{d2},{rtags[r]},TH,{n}>'
    desc=f'{op[0]} d1={d1} e1={e1} d2={d2} e2={e2} r={r} n={n} sn={int(sn)}'
    if op[0]=='neg': body='return mk(-a);'
    elif op[0]=='conv': body=f'return mk(static_cast<B>(a));'
    elif op[0] in('lt','eq'): body=f'return mkb(a {op[1]} b);'
    else: body=f'return mk(a {op[1]} b);'
    print(f'namespace k{i} {{ using A={A}; using B={B}; Out run(long long x,long long y){{ A a=deep<A>(x); B b=deep<B>(y); (void)b; {body} }} }}')
    ks.append((i,op[0],d1,e1,d2,e2,r,desc))
print('Kern kerns[]={')
for (i,op,d1,e1,d2,e2,r,desc) in ks:
    print(f' {{k{i}::run,OP_{op},{d1},{e1},{d2},{e2},{r},"{desc}"}},')
print('}; int nkerns=%d;'%len(ks))
