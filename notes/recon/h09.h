#include <cnl/all.h>
#include <cstdio>
typedef __int128 i128;
template<class T> constexpr T deep(long long raw){ if constexpr (cnl::_impl::is_wrapper<T>) { using R = cnl::_impl::rep_of_t<T>; return cnl::_impl::from_rep<T>(deep<R>(raw)); } else return static_cast<T>(raw); }
template<class T> constexpr i128 deepval(T const& x){ if constexpr (cnl::_impl::is_wrapper<T>) return deepval(cnl::_impl::to_rep(x)); else return (i128)x; }
struct Out { i128 v; };
struct Kern { Out(*run)(long long); int d1,s1,e1,d2,s2,e2,t; const char* desc; };
