#include "h11.h"
#include <random>
#include <vector>
#include <csetjmp>
#include <csignal>
static sigjmp_buf env; static volatile int in_case=0; static volatile int lastsig=0;
static void h(int s){ if(!in_case){ _exit(2);} lastsig=s; siglongjmp(env,1);} 
__attribute__((noinline)) static int call(Kern&K,long long x,long long y,Out&o,const char*&what){
  if(sigsetjmp(env,1)==0){ in_case=1; try{ o=K.run(x,y); in_case=0; return 0;}catch(std::overflow_error&e){ in_case=0; static char wb[64]; snprintf(wb,64,"%s",e.what()); what=wb; return 1;} }
  in_case=0; return 2; }

extern Kern kerns[]; extern int nkerns;
// exact: value = rep * 2^e. compare as i128 after aligning
static i128 shl(i128 v,int s){ return s>=0? v*((i128)1<<s) : v; }
// round num/den (den>0 after normalise) by mode
static i128 fdiv(i128 a,i128 b){ i128 q=a/b, r=a%b; if(r!=0 && ((r<0)!=(b<0))) --q; return q; }
static i128 roundq(i128 n,i128 d,int mode){ if(d<0){n=-n;d=-d;}
  switch(mode){ case 3: return n/d; case 2: return fdiv(n,d);
   case 1: return fdiv(2*n+d,2*d);
   case 0: { i128 an=n<0?-n:n; i128 q=(2*an+d)/(2*d); return n<0?-q:q; } } return 0; }
int main(){ struct sigaction sa{}; sa.sa_handler=h; sa.sa_flags=SA_NODEFER; sigaction(SIGILL,&sa,0); sigaction(SIGFPE,&sa,0); sigaction(SIGSEGV,&sa,0);
  std::mt19937_64 g(12345); long long total=0,viol=0,thr=0,spur=0,traps=0;
  for(int k=0;k<nkerns;k++){ Kern&K=kerns[k]; int kv=0,ktr=0; long long kthr=0,kspur=0,kn=0;
    i128 m1=((i128)1<<K.d1)-1, m2=((i128)1<<K.d2)-1;
    std::vector<long long> xs,ys;
    auto fill=[&](std::vector<long long>&v,i128 m){ long long mm=(long long)m; for(long long t: {0LL,1LL,-1LL,2LL,-2LL,3LL,-3LL,mm,-mm,mm-1,-(mm-1),mm/2,-(mm/2),mm/2+1,-(mm/2+1)}) if(t<=mm&&t>=-mm) v.push_back(t); for(int i=0;i<40;i++){ int bits=g()%(64); long long t=(long long)(g()>>(63-bits>0?63-bits:0)); t%= (mm+1); if(g()&1)t=-t; v.push_back(t);} };
    fill(xs,m1); fill(ys,m2);
    for(long long x:xs) for(long long y:ys){
      if((K.op==OP_div||K.op==OP_mod)&&y==0) continue;
      Out o; bool threw=false; const char* what="";
      int rc=call(K,x,y,o,what); total++; kn++;
      if(rc==2){ traps++; if(ktr++<2) printf("TRAP sig=%d %s x=%lld y=%lld\n",(int)lastsig,K.desc,x,y); continue; }
      threw = rc==1;
      // exact
      bool ok=true; i128 want=0; bool inrange=true;
      if(!threw){
        if(o.kind==1){ int emin=K.e1<K.e2?K.e1:K.e2; i128 a=shl(x,K.e1-emin), b=shl(y,K.e2-emin); bool w= K.op==OP_lt? a<b : a==b; ok=(o.b==w); }
        else{
          int re=o.exp; 
          switch(K.op){
           case OP_add: case OP_sub: { int emin=K.e1<K.e2?K.e1:K.e2; i128 a=shl(x,K.e1-emin), b=shl(y,K.e2-emin); want=K.op==OP_add?a+b:a-b; ok = (re==emin)&&o.v==want; break;}
           case OP_mul: want=(i128)x*y; ok=(re==K.e1+K.e2)&&o.v==want; break;
           case OP_div: want=roundq(x,y,K.r); ok=(re==K.e1-K.e2)&&o.v==want; break;
           case OP_mod: want=x%y; ok=(re==K.e1)&&o.v==want; break;
           case OP_neg: want=-(i128)x; ok=(re==K.e1)&&o.v==want; break;
           case OP_conv: { int s=K.e1-K.e2; if(s>=0) want=shl(x,s); else want=roundq(x,(i128)1<<(-s),K.r); ok=(re==K.e2)&&o.v==want; break;}
          }
          i128 lim=((i128)1<<o.digits)-1; if(o.v>lim||o.v<-lim) ok=false;
        }
      } else { thr++; kthr++;
        // spurious?
        i128 lim; 
        switch(K.op){ case OP_conv:{ int s=K.e1-K.e2; want= s>=0? shl(x,s): roundq(x,(i128)1<<(-s),K.r); lim=((i128)1<<K.d2)-1; if(want<=lim&&want>=-lim){spur++;kspur++; if(kspur<=2) printf("  SPUR %s x=%lld want=%lld %s\n",K.desc,x,(long long)want,what);} break;}
          default: { spur++; kspur++; if(kspur<=2) printf("  SPUR(op) %s x=%lld y=%lld %s\n",K.desc,x,y,what);} }
      }
      if(!ok){ viol++; if(kv++<3) printf("VIOL %s x=%lld y=%lld got=%lld(b=%d) want=%lld digits=%d exp=%d\n",K.desc,x,y,(long long)o.v,(int)o.b,(long long)want,o.digits,o.exp); }
    }
  }
  printf("total=%lld viol=%lld throws=%lld spurious=%lld traps=%lld\n",total,viol,thr,spur,traps);
}
