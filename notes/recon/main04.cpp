#include <csetjmp>
#include <csignal>
#include "h04.h"
#include <vector>
#include <random>
#include <cmath>
extern Kern kerns[]; extern int nkerns;
static sigjmp_buf env; static void hh(int){ siglongjmp(env,1);} 
int main(){ struct sigaction sa{}; sa.sa_handler=hh; sa.sa_flags=SA_NODEFER; sigaction(SIGILL,&sa,0); sigaction(SIGFPE,&sa,0);
 std::mt19937_64 g(4);
 for(int i=0;i<nkerns;i++){ Kern&K=kerns[i]; std::vector<long long> xs; unsigned long long mx= K.d==64? ~0ULL : ((1ULL<<K.d)-1);
   for(long long d=0; d<20; d++){ xs.push_back((long long)(mx-d)); xs.push_back(d); if(K.s){ xs.push_back(-d); xs.push_back(-(long long)mx-1+d);} }
   for(int b=1;b<K.d;b++) for(long long dd=-2;dd<=2;dd++){ unsigned long long v=(1ULL<<b)+dd; if(v<=mx){ xs.push_back((long long)v); if(K.s) xs.push_back(-(long long)v);} }
   for(int r=0;r<300;r++){ unsigned long long u=g()>>(g()%64); if(K.d<64) u%=(mx+1); xs.push_back((long long)u); if(K.s) xs.push_back(-(long long)(u>>1)); 
      // ties for mantissa: value with bits beyond mantissa = 100..0 and neighbours
      if(K.d>K.m){ int extra=K.d-K.m; unsigned long long base=(g()>>(64-K.d)); base &= ~((1ULL<<extra)-1); for(long long dd=-1;dd<=1;dd++){ unsigned long long v=base+(1ULL<<(extra-1))+dd; if(v<=mx) xs.push_back((long long)v);} } }
   for(long long x:xs){ if(sigsetjmp(env,1)==0){ long double f=K.tofl(x); printf("T %d %lld %La\n",i,x,f); } else printf("T %d %lld TRAP\n",i,x); }
   // from float: values x = (rep + frac) * rad^e
   for(int r=0;r<200;r++){ unsigned long long u=g()>>(g()%64); if(K.d<64) u%=(mx+1); long double frac=(long double)(g()>>11)/9007199254740992.0L; long double v=((long double)u+frac)*std::pow((long double)K.rad,(long double)K.e); if(K.s&&(g()&1)) v=-v; volatile long double vv = K.m==24? (long double)(float)v : K.m==53? (long double)(double)v : v; if(!std::isfinite((double)vv)&&K.m<64) continue; if(sigsetjmp(env,1)==0){ long long rr=K.fromfl(vv); printf("F %d %La %lld\n",i,(long double)vv,rr);} else printf("F %d %La TRAP\n",i,(long double)vv); }
 }
 for(int i=0;i<nkerns;i++) printf("K %d %d %d %d %d %d %s\n",i,kerns[i].d,kerns[i].s,kerns[i].m,kerns[i].e,kerns[i].rad,kerns[i].desc); }
