import random,sys
random.seed(int(sys.argv[1])); N=int(sys.argv[2])
reps=[('std::int8_t',7,1),('std::uint8_t',8,0),('std::int16_t',15,1),('std::uint16_t',16,0),('std::int32_t',31,1),('std::uint32_t',32,0),('std::int64_t',63,1),('std::uint64_t',64,0)]
fl=[('float',24),('double',53),('long double',64)]
print('#include "h04.h"')
ks=[]
for i in range(N):
    r=random.choice(reps); f=random.choice(fl); e=random.choice(list(range(-70,71))); rad=random.choice([2,2,2,10]) 
    if rad==10: e=random.choice(list(range(-12,8)))
    S=f'cnl::scaled_integer<{r[0]},cnl::power<{e},{rad}>>'
    print(f'namespace k{i} {{ using S={S}; using Fl={f[0]}; long double tofl(long long raw){{ S s=cnl::_impl::from_rep<S>(({r[0]})raw); return (long double)static_cast<Fl>(s); }} long long fromfl(long double x){{ S s=static_cast<S>((Fl)x); return (long long)cnl::_impl::to_rep(s); }} }}')
    ks.append((i,r,f,e,rad))
print('Kern kerns[]={')
for (i,r,f,e,rad) in ks: print(f' {{k{i}::tofl,k{i}::fromfl,{r[1]},{r[2]},{f[1]},{e},{rad},"{r[0]} e{e} r{rad} {f[0]}"}},')
print('}; int nkerns=%d;'%len(ks))
