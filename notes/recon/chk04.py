from fractions import Fraction as F
from collections import Counter
import sys
K={}
lines=open('/tmp/s/r04.out').read().split('\n')
for l in lines:
    if l.startswith('K '):
        p=l.split(' ',7); K[int(p[1])]=(int(p[2]),int(p[3]),int(p[4]),int(p[5]),int(p[6]),p[7])
def hexl(s):
    if 'inf' in s or 'nan' in s: return None
    neg=s.startswith('-'); s=s.lstrip('-'); mant,exp=s[2:].split('p'); ip,fp=(mant.split('.')+[''])[:2]
    x=F(int(ip+fp,16),16**len(fp))*F(2)**int(exp); return -x if neg else x
def nearest(v,m,emin):
    # round-to-nearest-even with m-bit significand, return set of acceptable (single) value; None if out of normal range
    if v==0: return F(0)
    a=abs(v); e=a.numerator.bit_length()-a.denominator.bit_length()
    if F(2)**e>a: e-=1
    if F(2)**(e+1)<=a: e+=1
    if e<emin: return None
    q=a/F(2)**(e-m+1); fl=q.numerator//q.denominator; r=q-fl
    if r>F(1,2) or (r==F(1,2) and fl%2==1): fl+=1
    res=fl*F(2)**(e-m+1)
    return res if v>0 else -res
c=Counter(); ex={}
emin={24:-126,53:-1022,64:-16382}; emax={24:128,53:1024,64:16384}
for l in lines:
    if l.startswith('T '):
        _,i,x,f=l.split(); d,s,m,e,rad,desc=K[int(i)]; x=int(x)
        if d==64: x%=2**64
        key='T r%d'%rad
        if f=='TRAP': c[key+' TRAP']+=1; ex.setdefault(key+' TRAP',(desc,x)); continue
        v=F(x)*F(rad)**e; fv=hexl(f)
        want=nearest(v,m,emin[m])
        if want is None or abs(v)>=F(2)**emax[m] or fv is None: c[key+' ood']+=1; continue
        if fv==want: c[key+' ok']+=1
        else:
            ulp=abs(fv-want); c[key+' NOT_NEAREST']+=1; ex.setdefault(key+' NOT_NEAREST',(desc,x,f,float(want)))
            # faithful?
            if abs(fv-v) < abs(want-v)*3+0: pass
    elif l.startswith('F '):
        _,i,f,r=l.split(); d,s,m,e,rad,desc=K[int(i)]; key='F r%d'%rad
        if d==64 and r!="TRAP": r=str(int(r)%2**64)
        v=hexl(f)
        if v is None: continue
        q=v/F(rad)**e; t=q.numerator//q.denominator if q>=0 else -((-q).numerator//(-q).denominator)
        mx=(1<<d)-1; mn=-(1<<d) if s else 0
        if not(mn<=t<=mx): c[key+' ood']+=1; continue
        if r=='TRAP': c[key+' TRAP']+=1; ex.setdefault(key+' TRAP',(desc,f,t)); continue
        if int(r)==t: c[key+' ok']+=1
        else: c[key+' WRONG']+=1; ex.setdefault(key+' WRONG',(desc,f,int(r),t))
for k,v in sorted(c.items()): print(v,k,ex.get(k,''))
