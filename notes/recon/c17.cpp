#include <csetjmp>
#include <csignal>
#include <cnl/all.h>
#include <cstdio>
#include <cmath>
#include <random>
#include <sys/time.h>
#include <vector>
static sigjmp_buf env; static volatile int lastsig; static void hh(int s){ lastsig=s; siglongjmp(env,1);} 
template<class T,class F> __attribute__((noinline)) int one(F x,long long&n,long long&d){ if(sigsetjmp(env,1)==0){ struct itimerval tv{{0,0},{0,200000}}; setitimer(ITIMER_VIRTUAL,&tv,0); auto f=cnl::fraction<T>(x); struct itimerval z{}; setitimer(ITIMER_VIRTUAL,&z,0); n=(long long)f.numerator; d=(long long)f.denominator; return 0;} struct itimerval z{}; setitimer(ITIMER_VIRTUAL,&z,0); return lastsig; }
static std::mt19937_64 g(17);
template<class F> std::vector<F> inputs(double maxT){ std::vector<F> v; int mant=std::numeric_limits<F>::digits;
  for(int e=-70;e<=64;e++) for(int m=0;m<64;m++){ F x=std::ldexp((F)(1+ (F)m/64),e); if(x<=maxT) {v.push_back(x); v.push_back(-x);} }
  for(int i=0;i<20000;i++){ int e=(int)(g()%90)-26; unsigned long long mm=g(); F frac=(F)mm/(F)18446744073709551616.0L; F x=std::ldexp(1+frac,e); if(x<=maxT){ v.push_back(x); if(i&1) v.back()=-x; } }
  for(int k=1;k<400;k++){ v.push_back((F)k/10); v.push_back((F)k/3); v.push_back((F)k/1000); v.push_back((F)1/k); v.push_back((F)k); v.push_back((F)k+ (F)0.5); v.push_back(-(F)k/7);} 
  for(int k=0;k<200;k++){ F x=(F)maxT - (F)k*(F)maxT/(F)1e6; if(x<=maxT&&x>0) v.push_back(x); F y=std::nextafter((F)maxT,(F)0); for(int j=0;j<k;j++) y=std::nextafter(y,(F)0); if(y<=maxT) v.push_back(y);} 
  (void)mant; return v; }
template<class T,class F> void run(const char*tn,const char*fn){ int hangs=0; for(F x: inputs<F>((double)std::numeric_limits<T>::max())){ if(!(std::fabs(x)<=(F)std::numeric_limits<T>::max())) continue; long long n=0,d=0; int rc=one<T,F>(x,n,d); if(rc==SIGVTALRM&&++hangs>5) return; printf("%s %s %La %d %lld %lld\n",tn,fn,(long double)x,rc,n,d);} }
int main(){ struct sigaction sa{}; sa.sa_handler=hh; sa.sa_flags=SA_NODEFER; for(int s:{SIGABRT,SIGILL,SIGFPE,SIGSEGV,SIGVTALRM}) sigaction(s,&sa,0);
  run<std::int16_t,float>("16","f"); run<std::int32_t,float>("32","f"); run<std::int64_t,float>("64","f");
  run<std::int16_t,double>("16","d"); run<std::int32_t,double>("32","d"); run<std::int64_t,double>("64","d");
  run<std::int32_t,long double>("32","l"); run<std::int64_t,long double>("64","l"); }
