#include <cnl/all.h>
#include <cstdio>
struct Kern { long double(*tofl)(long long); long long(*fromfl)(long double); int d,s,m,e,rad; const char*desc; };
