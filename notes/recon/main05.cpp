#include <csetjmp>
#include <csignal>
#include "h05.h"
#include <vector>
#include <random>
#include <cstring>
#include <string>
extern Kern kerns[]; extern int nkerns;
static sigjmp_buf env; static void hh(int){ siglongjmp(env,1);} 
__attribute__((noinline)) static int call(Kern&k,long long a,long long b,Out&o){ if(sigsetjmp(env,1)==0){ o=k.run(a,b); return 0;} return 9; }
int main(){ struct sigaction sa{}; sa.sa_handler=hh; sa.sa_flags=SA_NODEFER; sigaction(SIGILL,&sa,0); sigaction(SIGFPE,&sa,0);
 std::mt19937_64 g(9); long long total=0,viol=0,traps=0,ood=0;
 for(int i=0;i<nkerns;i++){ Kern&K=kerns[i]; int kv=0,kt=0; fprintf(stderr,"K %d %s\n",i,K.desc); std::string op=K.op;
  auto fill=[&](std::vector<long long>&v,int d,int s){ i128 m=((i128)1<<d)-1; long long mm=(long long)m; for(long long t:{0LL,1LL,2LL,3LL,mm,mm-1,mm/2,mm/2+1}){ if(t<=mm){ v.push_back(t); if(s) v.push_back(-t);} } for(int r=0;r<30;r++){ unsigned long long u=g()>>(g()%64); long long t=(long long)(u%( (unsigned long long)mm+1)); v.push_back(t); if(s) v.push_back(-t);} };
  std::vector<long long> xs,ys; fill(xs,K.d1,K.s1); fill(ys,K.d2,K.s2);
  for(long long x:xs) for(long long y:ys){ Out o; int rc=call(K,x,y,o); total++; if(rc){ traps++; if(kt++<2) printf("TRAP %s x=%lld y=%lld\n",K.desc,x,y); continue; }
    if(o.kind==0 && o.digits<=0){ ood++; continue; } bool ok=true; i128 want=0;
    if(o.kind==1){ bool w; if(op=="<")w=x<y; else if(op=="<=")w=x<=y; else if(op==">")w=x>y; else if(op==">=")w=x>=y; else if(op=="==")w=x==y; else if(op=="!=")w=x!=y; else w=true; ok=(o.b==w); }
    else { if(op=="neg") want=-(i128)x; else if(op=="shl") want=(i128)x<<0, want=(i128)x*((i128)1<<K.sh); else { want = (i128)x>>K.sh; }
      ok=(o.v==want); i128 lim=((i128)1<<o.digits)-1; if(o.v>lim || o.v< (o.sg?-lim:0)) ok=false; if(o.mx!=lim || o.lo!=(o.sg?-lim:0)) ok=false; }
    if(!ok){ viol++; if(kv++<3) printf("VIOL %s x=%lld y=%lld got=%lld b=%d want=%lld digits=%d sg=%d mx=%lld lo=%lld\n",K.desc,x,y,(long long)o.v,(int)o.b,(long long)want,o.digits,(int)o.sg,(long long)o.mx,(long long)o.lo); } } }
 printf("total=%lld viol=%lld traps=%lld ood=%lld kernels=%d\n",total,viol,traps,ood,nkerns); }
