#include <cnl/all.h>
#include <cstdio>
#include <stdexcept>
typedef __int128 i128;
using TH = cnl::_impl::throwing_overflow_tag;
struct Out { i128 v; int rw; bool rs; };
struct Kern { Out(*run)(unsigned long long,unsigned long long); const char*op; int lw,ls,rw,rs; };
