import itertools
Ts=['std::int8_t','std::uint8_t','std::int16_t','std::uint16_t','std::int32_t','std::uint32_t','std::int64_t','std::uint64_t']
def W(kind,T):
    if kind=='S': return f'cnl::scaled_integer<{T},cnl::power<0>>'
    if kind=='O': return f'cnl::overflow_integer<{T},cnl::native_overflow_tag>'
    if kind=='R': return f'cnl::rounding_integer<{T},cnl::native_rounding_tag>'
nest=['S','O','R','SO','SR','OR','RO','OS','RS','SOR']
def WW(n,T):
    t=T
    for k in reversed(n): t=W(k,t)
    return t
binops=['+','-','*','/','%','&','|','^','<<','>>','<','<=','>','>=','==','!=']
unops=['-','+','~']
print('#include "h12.h"')
ks=[]
i=0
import sys
sel_T=Ts
for n in nest:
  for T in sel_T:
    for op in binops+['u'+u for u in unops]+['+=','-=','*=','/=','%=','&=','|=','^=','<<=','>>=','++x','x++','--x','x--']:
        name=f'k{i}'; i+=1
        w=WW(n,T)
        if op in binops:
            body=f'auto r=cnl::unwrap(W(a) {op} W(b)); auto e=(a {op} b); return cmp(r,e);'
        elif op.startswith('u'):
            body=f'auto r=cnl::unwrap({op[1]}W(a)); auto e=({op[1]}a); return cmp(r,e);'
        elif op.endswith('=') and op not in('<=','>=','==','!='):
            body=f'W x(a); x {op} W(b); T y=a; y {op} b; return cmp(cnl::unwrap(x),y);'
        elif op in('++x','--x'):
            body=f'W x(a); auto r=cnl::unwrap({op[:2]}x); T y=a; auto e={op[:2]}y; return cmp2(r,e,cnl::unwrap(x),y);'
        else:
            body=f'W x(a); auto r=cnl::unwrap(x{op[1:]}); T y=a; auto e=y{op[1:]}; return cmp2(r,e,cnl::unwrap(x),y);'
        print(f'namespace {name} {{ using T={T}; using W={w}; int run(T a,T b){{ (void)b; {body} }} }}')
        ks.append((name,n,T,op))
print('K kerns[]={')
for (name,n,T,op) in ks: print(f' {{(int(*)(long long,long long))+[](long long a,long long b){{ return {name}::run(({T})a,({T})b); }},"{n}","{T}","{op}",sizeof({T})*8,std::is_signed_v<{T}>}},')
print('}; int nk=%d;'%len(ks))
