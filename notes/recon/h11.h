#include <cnl/all.h>
#include <cstdio>
#include <stdexcept>
typedef __int128 i128;
using TH = cnl::_impl::throwing_overflow_tag;
template<class T> constexpr T deep(long long raw){
  if constexpr (cnl::_impl::is_wrapper<T>) { using R = cnl::_impl::rep_of_t<T>; return cnl::_impl::from_rep<T>(deep<R>(raw)); }
  else return static_cast<T>(raw);
}
template<class T> constexpr i128 deepval(T const& x){
  if constexpr (cnl::_impl::is_wrapper<T>) return deepval(cnl::_impl::to_rep(x)); else return (i128)x;
}
template<class T> struct exp_of { static constexpr int value=0; };
template<class R,int E> struct exp_of<cnl::scaled_integer<R,cnl::power<E,2>>> { static constexpr int value=E; };
struct Out { int kind; i128 v; int digits; int exp; bool b; };
template<class T> Out mk(T const& r){ return Out{0, deepval(r), (int)cnl::digits_v<T>, exp_of<T>::value, false}; }
inline Out mkb(bool b){ return Out{1,0,0,0,b}; }
enum {OP_add,OP_sub,OP_mul,OP_div,OP_lt,OP_eq,OP_neg,OP_conv,OP_mod};
struct Kern { Out(*run)(long long,long long); int op,d1,e1,d2,e2,r; const char* desc; };
