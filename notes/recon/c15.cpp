#include <cnl/all.h>
#include <cstdio>
#include <iostream>
#include <string>
typedef __int128 i128; typedef unsigned __int128 u128;
using W=cnl::wide_integer<200,int>;
int main(){ std::string kind,tok; while(std::cin>>kind>>tok){
  if(kind=="i128"){ i128 v=cnl::_impl::parse<i128>(tok.c_str()); u128 u=(u128)v; printf("i128 %s %016llx%016llx\n",tok.c_str(),(unsigned long long)(u>>64),(unsigned long long)u); }
  else if(kind=="i64"){ auto v=cnl::_impl::parse<std::int64_t>(tok.c_str()); printf("i64 %s %016llx\n",tok.c_str(),(unsigned long long)v); }
  else { W v=cnl::_impl::parse<W>(tok.c_str()); printf("w200 %s ",tok.c_str()); for(int i=3;i>=0;i--){ auto limb=static_cast<std::uint64_t>(static_cast<W>(v>>(64*i)) & W{0xffffffffffffffffULL}); printf("%016llx",(unsigned long long)limb);} printf("\n"); }
 } }
