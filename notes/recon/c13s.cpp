#include <csetjmp>
#include <csignal>
#include <cnl/all.h>
#include <cstdio>
#include <sstream>
#include <random>
#include <sys/time.h>
using namespace cnl;
static sigjmp_buf env; static volatile int lastsig; static void hh(int s){ lastsig=s; siglongjmp(env,1);} 
static std::mt19937_64 g(7); static long total=0,bad=0,mism=0;
template<class Rep,int E,int R> __attribute__((noinline)) int one(long long raw,std::string&a,std::string&b,std::string&c){ using T=scaled_integer<Rep,power<E,R>>; if(sigsetjmp(env,1)==0){ struct itimerval tv{{0,0},{0,50000}}; setitimer(ITIMER_VIRTUAL,&tv,0); T v=_impl::from_rep<T>((Rep)raw); a=cnl::to_string(v); auto s=cnl::to_chars_static(v); b=std::string(s.chars.data(),s.length); std::ostringstream o; o<<v; c=o.str(); struct itimerval z{}; setitimer(ITIMER_VIRTUAL,&z,0); return 0;} struct itimerval z{}; setitimer(ITIMER_VIRTUAL,&z,0); return lastsig; }
template<class Rep,int E,int R> void run(const char*n){ long long mx=(long long)std::numeric_limits<Rep>::max(), mn=(long long)std::numeric_limits<Rep>::lowest(); std::vector<long long> vs{1,2,3,5,7,9,10,99,100,101,255,256,999,1000,12345,65535,mx,mx-1,mx/2,mx/3,mx/10,mx/10+1}; if(mn<0){ size_t k=vs.size(); for(size_t i=0;i<k;i++) vs.push_back(-vs[i]); vs.push_back(mn); vs.push_back(mn+1);} for(int i=0;i<40;i++){ unsigned long long u=g()>>(g()%64); long long t=(long long)(u%((unsigned long long)mx)); vs.push_back(t); if(mn<0) vs.push_back(-t);} int hangs=0; for(long long raw:vs){ if(raw>mx||raw<mn) continue; std::string a,b,c; int rc=one<Rep,E,R>(raw,a,b,c); total++; if(rc){ bad++; if(rc==SIGVTALRM) hangs++; printf("SIG%d %s e=%d r=%d raw=%lld\n",rc,n,E,R,raw); if(hangs>2) return; continue;} if(a!=b||b!=c){ mism++; printf("MISMATCH %s e=%d raw=%lld '%s' '%s' '%s'\n",n,E,raw,a.c_str(),b.c_str(),c.c_str()); } } }
int main(){ struct sigaction sa{}; sa.sa_handler=hh; sa.sa_flags=SA_NODEFER; for(int s:{SIGABRT,SIGILL,SIGFPE,SIGSEGV,SIGVTALRM}) sigaction(s,&sa,0);
#define RUN(Rep,E,R) run<Rep,E,R>(#Rep);
 RUN(std::int8_t,-3,2) RUN(std::int8_t,-7,2) RUN(std::uint8_t,-8,2) RUN(std::int8_t,-20,2) RUN(std::int8_t,2,2) RUN(std::uint8_t,5,2)
 RUN(std::int16_t,-8,2) RUN(std::int16_t,-15,2) RUN(std::uint16_t,-16,2) RUN(std::int16_t,-40,2) RUN(std::int16_t,7,2)
 RUN(int,-16,2) RUN(int,-31,2) RUN(int,-1,2) RUN(unsigned,-32,2) RUN(int,-50,2) RUN(int,-70,2) RUN(int,10,2) RUN(int,30,2)
 RUN(std::int64_t,-32,2) RUN(std::int64_t,-63,2) RUN(std::int64_t,-70,2) RUN(std::int64_t,-10,2) RUN(std::int64_t,3,2) RUN(std::int64_t,40,2)
 RUN(int,-3,10) RUN(int,-9,10) RUN(std::int64_t,-18,10) RUN(int,2,10) RUN(std::int16_t,-6,10) RUN(std::int64_t,-30,10) RUN(int,5,10)
 printf("total=%ld bad=%ld mismatch=%ld\n",total,bad,mism); }
