#include <csetjmp>
#include <csignal>
#include <cnl/all.h>
#include <cstdio>
#include <cstring>
#include <sstream>
#include <random>
static sigjmp_buf env; static volatile int lastsig; static void hh(int s){ lastsig=s; siglongjmp(env,1);} 
static std::mt19937_64 g(13);
static std::string s128(__int128 v){ bool n=v<0; unsigned __int128 u=n?-(unsigned __int128)v:(unsigned __int128)v; std::string s; do{ s.insert(s.begin(),char('0'+(int)(u%10))); u/=10;}while(u); if(n)s.insert(s.begin(),'-'); return s; }
static std::string su128(unsigned __int128 u){ std::string s; do{ s.insert(s.begin(),char('0'+(int)(u%10))); u/=10;}while(u); return s; }
template<class T> std::string vstr(T const& v){ if constexpr (std::is_same_v<T,unsigned __int128>) return su128(v); else if constexpr (std::is_integral_v<T>||std::is_same_v<T,__int128>) return s128((__int128)v); else { using namespace cnl; std::ostringstream o; o<<v; return o.str(); } }
template<class T> __attribute__((noinline)) int one(T v,int base,int len,char*buf,long&off,int&ec){ if(sigsetjmp(env,1)==0){ auto r=cnl::to_chars(buf,buf+len,v,base); off= r.ptr? (long)(r.ptr-buf) : -999; ec=(int)r.ec; return 0;} return lastsig; }
template<class T> void run(const char*name, std::vector<T> vals){ for(T v: vals) for(int base: {2,3,8,10,16,36}) for(int len=0;len<=140;len+= (len<70?1:7)){ char arena[200]; memset(arena,'#',200); char*buf=arena+16; long off=0; int ec=0; int rc=one<T>(v,base,len,buf,off,ec); bool canary=true; for(int i=0;i<16;i++) if(arena[i]!='#') canary=false; for(int i=16+len;i<200;i++) if(arena[i]!='#') canary=false; std::string vs=vstr(v); printf("%s %s %d %d %d %d %ld %d %.*s\n",name,vs.c_str(),base,len,rc,ec,off,(int)canary,(rc==0&&ec==0&&off>0&&off<=len)?(int)off:0,buf); } }
template<class T> std::vector<T> bv(){ std::vector<T> v; T mx=std::numeric_limits<T>::max(), mn=std::numeric_limits<T>::lowest(); for(T t: {T(0),T(1),T(9),T(10),T(35),T(36),T(99),T(100),mx,T(mx-1),T(mx/2)}) v.push_back(t); if(mn<0){ v.push_back(mn); v.push_back(T(mn+1)); v.push_back(T(-1)); v.push_back(T(-10)); } for(int i=0;i<6;i++){ v.push_back((T)(g()>>(g()%64))); } return v; }
int main(){ struct sigaction sa{}; sa.sa_handler=hh; sa.sa_flags=SA_NODEFER; for(int s:{SIGABRT,SIGILL,SIGFPE,SIGSEGV}) sigaction(s,&sa,0);
 run<std::int8_t>("i8",bv<std::int8_t>()); run<std::uint8_t>("u8",bv<std::uint8_t>()); run<int>("i32",bv<int>()); run<unsigned>("u32",bv<unsigned>()); run<std::int64_t>("i64",bv<std::int64_t>()); run<std::uint64_t>("u64",bv<std::uint64_t>());
 { using T=__int128; std::vector<T> v{0,1,-1,(T)1<<100,-((T)1<<100),std::numeric_limits<T>::max(),std::numeric_limits<T>::lowest()+1,std::numeric_limits<T>::lowest()}; run<T>("i128",v);} 
 { using T=unsigned __int128; std::vector<T> v{0,1,(T)1<<100,std::numeric_limits<T>::max()}; run<T>("u128",v);} 
 { using T=cnl::wide_integer<200,int>; std::vector<T> v{T{0},T{1},T{-1},std::numeric_limits<T>::max(),std::numeric_limits<T>::lowest()+T{1},T{1}<<150,-(T{1}<<150)}; run<T>("w200",v);} 
 { using T=cnl::elastic_integer<20>; std::vector<T> v{T{0},T{1},T{-1},std::numeric_limits<T>::max(),std::numeric_limits<T>::lowest()}; run<T>("e20",v);} 
 { using T=cnl::overflow_integer<int,cnl::saturated_overflow_tag>; std::vector<T> v{T{0},T{1},T{-1},std::numeric_limits<T>::max(),std::numeric_limits<T>::lowest()}; run<T>("o32",v);} 
}
