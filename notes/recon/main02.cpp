#include <csetjmp>
#include <csignal>
#include "h01.h"
#include <vector>
#include <random>
#include <string>
extern Kern kerns[]; extern int nkerns;
static sigjmp_buf env; static void hh(int s){ siglongjmp(env,s);} 
__attribute__((noinline)) static int call(Kern&k,long long a,long long b,Out&o){ int s=sigsetjmp(env,1); if(s==0){ o=k.run(a,b); return 0;} return s; }
static i128 ipow(int r,int n){ i128 p=1; while(n-->0) p*=r; return p; }
struct Ty{int w;bool s;}; static Ty prom(int d,int s){ int w=d+s; w = w<=8?8:w<=16?16:w<=32?32:64; if(w<32) return {32,true}; return {w,(bool)s}; }
static Ty common(Ty a,Ty b){ if(a.s==b.s) return {a.w>b.w?a.w:b.w,a.s}; Ty sg=a.s?a:b, us=a.s?b:a; if(us.w>=sg.w) return {us.w,false}; return {sg.w,true}; }
static bool fits(i128 v,Ty t){ i128 mx=t.s?(((i128)1<<(t.w-1))-1):(((i128)1<<t.w)-1), mn=t.s?-((i128)1<<(t.w-1)):0; return v>=mn&&v<=mx; }
int main(){ struct sigaction sa{}; sa.sa_handler=hh; sa.sa_flags=SA_NODEFER; for(int s:{SIGILL,SIGFPE,SIGABRT}) sigaction(s,&sa,0); std::mt19937_64 g(1); long long total=0,viol=0,ood=0,traps=0;
 for(int i=0;i<nkerns;i++){ Kern&K=kerns[i]; std::string op=K.op; int kv=0,kt=0;
  auto fill=[&](std::vector<long long>&v,int d,int s,char k){ unsigned long long mx= d==64?~0ULL:((1ULL<<d)-1); if(d<=8){ for(long long t=(s? (k=='e'?-(long long)mx:-(long long)mx-1):0); t<=(long long)mx; t++) v.push_back(t); return;} for(long long t:{0LL,1LL,2LL,3LL,5LL,7LL,10LL,100LL}) {v.push_back(t); if(s) v.push_back(-t);} for(long long dd=0;dd<3;dd++){ v.push_back((long long)(mx-dd)); if(s) v.push_back(-(long long)(mx-dd)); } if(s&&k=='b') v.push_back(-(long long)mx-1); for(int r=0;r<25;r++){ unsigned long long u=g()>>(g()%64); if(d<64) u%=(mx+1); v.push_back((long long)u); if(s) v.push_back(-(long long)(u>>1)); } };
  std::vector<long long> xs,ys; fill(xs,K.d1,K.s1,K.k1); fill(ys,K.d2,K.s2,K.k2); if(op=="neg") ys={0};
  int emin=K.e1<K.e2?K.e1:K.e2; 
  for(long long x:xs) for(long long y:ys){ i128 X=x,Y=y; if(!K.s1&&K.d1==64) X=(i128)(unsigned long long)x; if(!K.s2&&K.d2==64) Y=(i128)(unsigned long long)y;
    // domain for builtin reps
    Ty pl=prom(K.d1,K.s1), pr=prom(K.d2,K.s2); bool elastic=(K.k1=='e'||K.k2=='e'); bool ind=true; i128 want=0; int wexp=0; bool cmp=false,wb=false; (void)cmp;(void)wb;(void)emin;
    if(Y==0){ ood++; continue; }
    Ty c=common(pl,pr);
    if(!elastic){ if(pl.s!=pr.s && (!fits(X,c)||!fits(Y,c))) ind=false; if(c.s && X==-((i128)1<<(c.w-1)) && Y==-1) ind=false; }
    else { if((K.k1=='b'&&!fits(X,pl))||(K.k2=='b'&&!fits(Y,pr))) ind=false; if(K.k1=='b'&&K.s1&&X==-((i128)1<<K.d1)) ind=false; if(K.k2=='b'&&K.s2&&Y==-((i128)1<<K.d2)) ind=false; }
    if(op=="div"){ want=X/Y; wexp=K.e1-K.e2; }
    else if(op=="mod"){ want=X%Y; wexp=K.e1; }
    else { want=0; }
    if(!ind){ ood++; continue; }
    Out o; int rc=call(K,x,y,o); total++; if(rc){ traps++; if(kt++<2) printf("TRAP sig=%d %s x=%lld y=%lld\n",rc,K.desc,x,y); continue; }
    bool ok; if(op=="quot"){ i128 v=o.v; // q*2^oexp vs (X*2^e1)/(Y*2^e2): |a/b|-|q| in [0,ulp), same sign
        // compare v * Y * 2^(oexp+e2-e1) with X : use big shifts carefully
        int sh=o.exp+K.e2-K.e1; // q_real = v*2^sh*Y ; need |X| - |v*Y*2^sh| in [0, |Y|*2^sh)
        bool fine=true; i128 aX=X<0?-X:X, aY=Y<0?-Y:Y, av=v<0?-v:v; 
        if(sh>=0){ if(sh>60){ fine=(v==0); } else { i128 p=av*aY; if(p!=0 && (p>>(126-sh))!=0) fine=false; else { i128 t=p<<sh; fine = (t<=aX) && (aX-t < (aY<<sh)); } } }
        else { int s2=-sh; if(s2>100) fine=false; else { // compare av*aY with aX*2^s2
            i128 lhs=av*aY; if((aX>>(126-s2))!=0){ fine=true; /* cannot decide in 128 bits: skip */ } else { i128 rhs=aX<<s2; fine=(lhs<=rhs)&&(rhs-lhs<aY); } } }
        bool sgn = (v==0) || ((v<0)==((X<0)!=(Y<0)));
        ok=fine&&sgn; want=-7777; }
    else if(cmp) ok=(o.b==wb); else { i128 v=o.v; if(!o.sg&&o.bits==64&&v<0) v+=((i128)1<<64); ok=(v==want&&o.exp==wexp&&o.radix==K.rad); }
    if(!ok){ viol++; if(kv++<2) printf("VIOL %s x=%lld y=%lld got=%lld exp=%d want=%lld wexp=%d b=%d\n",K.desc,x,y,(long long)o.v,o.exp,(long long)want,wexp,(int)o.b); } } }
 printf("total=%lld viol=%lld traps=%lld ood=%lld kernels=%d\n",total,viol,traps,ood,nkerns); }
