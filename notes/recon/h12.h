#include <cnl/all.h>
#include <type_traits>
#include <cstdio>
// returns 0 ok, 1 value mismatch, 2 type mismatch
template<class R,class E> int cmp(R r,E e){ if(!std::is_same_v<R,E>) return 2; return r==e?0:1; }
template<class R,class E,class R2,class E2> int cmp2(R r,E e,R2 r2,E2 e2){ if(!std::is_same_v<R,E>) return 2; if(!std::is_same_v<R2,E2>) return 2; return (r==e&&r2==e2)?0:1; }
struct K{ int(*run)(long long,long long); const char*nest; const char*T; const char*op; int w; bool sg; };
