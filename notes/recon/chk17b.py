import sys
from fractions import Fraction as F
from collections import Counter
c=Counter(); ex={}
D={'16':15,'32':31,'64':63}; M={'f':24,'d':53,'l':64}
def parse(hx,fk):
    if fk!='l': return F(float.fromhex(hx))
    s=hx; neg=s.startswith('-'); s=s.lstrip('-'); mant,exp=s[2:].split('p')
    ip,fp=(mant.split('.')+[''])[:2]
    x=F(int(ip+fp,16),16**len(fp))*F(2)**int(exp); return -x if neg else x
for l in open(sys.argv[1]):
    p=l.split(); T,fk,hx,rc,n,d=p[0],p[1],p[2],int(p[3]),int(p[4]),int(p[5])
    x=parse(hx,fk); mx=2**D[T]-1
    lim=int(sys.argv[2]) if len(sys.argv)>2 else 2
    easy = abs(x.numerator)<=mx//lim and x.denominator<=mx//lim
    if rc!=0: out='ABORT' if rc==6 else 'SIG%d'%rc
    elif d<=0: out='BAD'
    else:
        q=F(n,d)
        rep= abs(x.numerator)<=mx and x.denominator<=mx
        if rep: out='ok' if q==x else 'BAD_notexact'
        else:
            ax=abs(x); fl=ax.numerator//ax.denominator
            out='ok' if ((q>=0)==(x>=0) or q==0) and fl<=abs(q)<=fl+1 and abs(q-x)<max(F(1),ax)*F(2)**(4-D[T]) else 'BAD_approx'
    c[(T,fk,'easy' if easy else 'hard',out)]+=1; ex.setdefault((T,fk,'easy' if easy else 'hard',out),l.strip())
for k,v in sorted(c.items()): print(v,k, ex[k] if k[2]=='easy' and k[3]!='ok' else '')
