#include <csetjmp>
#include "h12.h"
#include <cstring>
#include <vector>
#include <string>
#include <random>
typedef __int128 i128;
extern K kerns[]; extern int nk;
#include <csignal>
#include <unistd.h>
static K*curk; static long long cura,curb;
static sigjmp_buf env; static int ntrap; static void hh(int){ siglongjmp(env,1);} __attribute__((noinline)) static int call(K&k,long long a,long long b){ if(sigsetjmp(env,1)==0) return k.run(a,b); return 9; } 
static bool defined_ref(const K&k,long long a,long long b){ // is built-in expr defined (no UB)? operands promoted
  std::string op=k.op; int w=k.w; bool sg=k.sg;
  int pw = w<32?32:w; bool psg = w<32?true:sg; // promoted
  i128 A=a,B=b; // a,b already hold value of T
  i128 mx = psg? (((i128)1<<(pw-1))-1) : (((i128)1<<pw)-1); i128 mn= psg? -((i128)1<<(pw-1)) : 0;
  auto fits=[&](i128 v){ return !psg || (v>=mn&&v<=mx); };
  std::string o=op; if(o.size()>=2 && o.back()=='=' && o!="<="&&o!=">="&&o!="=="&&o!="!=") o=o.substr(0,o.size()-1);
  if(o=="+"||o=="++x"||o=="x++") return fits(o=="+"?A+B:A+1);
  if(o=="-"||o=="--x"||o=="x--") return fits(o=="-"?A-B:A-1);
  if(o=="*") return fits(A*B);
  if(o=="/"||o=="%") { if(B==0) return false; if(psg && A==mn && B==-1) return false; return true; }
  if(o=="<<") { if(B<0||B>=pw) return false; if(psg && A<0) return true; /*C++20 defined*/ return true; }
  if(o==">>") { return !(B<0||B>=pw); }
  if(o=="u-") return fits(-A);
  return true; }
int main(){ struct sigaction sa{}; sa.sa_handler=hh; sa.sa_flags=SA_NODEFER; sigaction(SIGILL,&sa,0); sigaction(SIGFPE,&sa,0); std::mt19937_64 g(3); long long total=0,skipped=0; int badv=0,badt=0;
  for(int i=0;i<nk;i++){ K&k=kerns[i]; int w=k.w; bool sg=k.sg; std::vector<long long> vs;
    i128 mx = sg? (((i128)1<<(w-1))-1) : (((i128)1<<w)-1); i128 mn= sg? -((i128)1<<(w-1)) : 0;
    if(w==8){ for(long long v=(long long)mn; v<=(long long)mx; v++) vs.push_back(v);} else { for(long long d=0; d<4; d++){ vs.push_back((long long)(mn+d)); vs.push_back((long long)(mx-d)); vs.push_back(d); if(sg) vs.push_back(-d);} for(int b=1;b<w-(sg?1:0);b++){ vs.push_back((long long)(((i128)1<<b))); vs.push_back((long long)(((i128)1<<b)-1)); if(sg){ vs.push_back(-(long long)(((i128)1<<b))); } } for(int r=0;r<40;r++){ unsigned long long u=g()>>(g()%64); long long v= w==64? (long long)u : (long long)(u & (((unsigned long long)1<<w)-1)); if(sg&&w<64){ if(v>(long long)mx) v-= ((long long)1<<w);} vs.push_back(v);} }
    int kb=0,kt=0;
    for(long long a:vs) for(long long b:vs){ if(!defined_ref(k,a,b)){skipped++;continue;} curk=&k;cura=a;curb=b; int r=call(k,a,b); if(r==9){ ntrap++; if(kt++<2) printf("TRAP %s %s %s a=%lld b=%lld\n",k.nest,k.T,k.op,a,b); continue; } total++; if(r){ if(r==2){ badt++; printf("TYPE %s %s %s\n",k.nest,k.T,k.op); goto next;} if(kb++<2){ badv++; printf("VALUE %s %s %s a=%lld b=%lld\n",k.nest,k.T,k.op,a,b);} } }
    next:; }
  printf("traps=%d ",ntrap); printf("kernels=%d total=%lld skipped=%lld valuebad=%d typebad=%d\n",nk,total,skipped,badv,badt); }
