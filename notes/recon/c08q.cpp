#include <cnl/all.h>
#include <cstdio>
#include <random>
typedef __int128 i128;
static i128 fdiv(i128 a,i128 b){ i128 q=a/b, r=a%b; if(r!=0 && ((r<0)!=(b<0))) --q; return q; }
static i128 roundq(i128 n,i128 d,int mode){ if(d<0){n=-n;d=-d;} switch(mode){ case 1: return fdiv(2*n+d,2*d); case 0: { i128 an=n<0?-n:n; i128 q=(2*an+d)/(2*d); return n<0?-q:q; } } return 0; }
static long long total=0,bad=0,ood=0;
template<class T,class Tag,int mode> void one(long long a,long long b){ if(b==0) return; using R=cnl::rounding_integer<T,Tag>; i128 want=roundq(a,b,mode); using Res=decltype(T{}/T{}); if(want>(i128)std::numeric_limits<Res>::max()||want<(i128)std::numeric_limits<Res>::lowest()){ood++;return;} if(std::is_signed_v<T> && a==(long long)std::numeric_limits<Res>::lowest() && b==-1){ood++;return;}
  auto r=R{(T)a}/R{(T)b}; total++; i128 got=(i128)cnl::_impl::to_rep(r); if(got!=want){ if(bad++<10) printf("BAD mode%d %s a=%lld b=%lld got=%lld want=%lld\n",mode,__PRETTY_FUNCTION__,a,b,(long long)got,(long long)want);} }
template<class T> void all(){ std::mt19937_64 g(8); long long mx=(long long)std::numeric_limits<T>::max(), mn=(long long)std::numeric_limits<T>::lowest();
  std::vector<long long> v; if(sizeof(T)==1){ for(long long x=mn;x<=mx;x++) v.push_back(x);} else { for(long long d=0;d<6;d++){ v.push_back(mx-d); v.push_back(mn+d); v.push_back(d); if(mn<0) v.push_back(-d); v.push_back(mx/2+d); v.push_back(mx/2-d); if(mn<0){v.push_back(mn/2+d); v.push_back(mn/2-d);} } for(int i=0;i<300;i++){ unsigned long long u=g()>>(g()%64); long long t=(long long)(u% ((unsigned long long)mx+1)); v.push_back(t); if(mn<0) v.push_back(-t);} }
  for(long long a:v) for(long long b:v){ one<T,cnl::nearest_rounding_tag,0>(a,b); one<T,cnl::tie_to_pos_inf_rounding_tag,1>(a,b); }
  if(sizeof(T)>1) for(int i=0;i<200000;i++){ long long b=(long long)(g()>>(g()%64))%((unsigned long long)mx+1); if(!b) continue; if(mn<0&&(g()&1)) b=-b; long long k=(long long)(g()>>(g()%64)); long long a; if(__builtin_mul_overflow(k%1000003,b,&a)) continue; if(__builtin_add_overflow(a, b/2 + (long long)(g()%3)-1, &a)) continue; if(a>mx||a<mn) continue; one<T,cnl::nearest_rounding_tag,0>(a,b); one<T,cnl::tie_to_pos_inf_rounding_tag,1>(a,b);} }
int main(){ all<std::int8_t>(); all<std::uint8_t>(); all<std::int16_t>(); all<std::int32_t>(); all<std::uint32_t>(); all<std::int64_t>(); printf("total=%lld bad=%lld ood=%lld\n",total,bad,ood); }
