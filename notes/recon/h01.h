#include <cnl/all.h>
#include <cstdio>
typedef __int128 i128;
template<class T> constexpr T deep(long long raw){ if constexpr (cnl::_impl::is_wrapper<T>) { using R = cnl::_impl::rep_of_t<T>; return cnl::_impl::from_rep<T>(deep<R>(raw)); } else return static_cast<T>(raw); }
template<class T> constexpr i128 deepval(T const& x){ if constexpr (cnl::_impl::is_wrapper<T>) return deepval(cnl::_impl::to_rep(x)); else return (i128)x; }
template<class T> struct base_of { using type=T; };
template<class R,class Tag> struct base_of<cnl::_impl::wrapper<R,Tag>> { using type=typename base_of<R>::type; };
struct Out { int kind; i128 v; int exp; int radix; int bits; bool sg; bool b; };
template<class T> Out mk(T const& r){ using B=typename base_of<T>::type; return Out{0,deepval(r),cnl::_impl::tag_of_t<T>::exponent,cnl::_impl::tag_of_t<T>::radix,(int)sizeof(B)*8,std::is_signed_v<B>,false}; }
inline Out mkb(bool b){ return Out{1,0,0,0,0,false,b}; }
struct Kern { Out(*run)(long long,long long); const char*op; int d1,s1; char k1; int e1; int d2,s2; char k2; int e2; int rad; const char* desc; };
