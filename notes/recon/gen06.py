Ts=[('std::int8_t',8,1),('std::uint8_t',8,0),('std::int16_t',16,1),('std::uint16_t',16,0),('std::int32_t',32,1),('std::uint32_t',32,0),('std::int64_t',64,1),('std::uint64_t',64,0)]
ops=[('add','add_op','+'),('sub','subtract_op','-'),('mul','multiply_op','*'),('div','divide_op','/'),('shl','shift_left_op','<<')]
print('#include "h06.h"')
ks=[]
i=0
for (o,opn,sym) in ops:
  for L in Ts:
    for R in Ts:
        print(f'namespace k{i} {{ Out run(unsigned long long a,unsigned long long b){{ using L={L[0]}; using R={R[0]}; using Res=decltype(L{{}} {sym} R{{}}); auto r=cnl::_impl::operate<cnl::_impl::{opn},TH>{{}}((L)a,(R)b); static_assert(std::is_same_v<decltype(r),Res>); return Out{{(i128)r,(int)sizeof(Res)*8,std::is_signed_v<Res>}}; }} }}')
        ks.append((i,o,L,R)); i+=1
print('Kern kerns[]={')
for (i,o,L,R) in ks: print(f' {{k{i}::run,"{o}",{L[1]},{L[2]},{R[1]},{R[2]}}},')
print('}; int nkerns=%d;'%len(ks))
