#include <cnl/all.h>
#include <cstdio>
typedef __int128 i128;
struct Out { int kind; i128 v; int digits; bool sg; bool b; i128 mx, lo; };
template<class T> Out mk(T const& r){ return Out{0,(i128)cnl::_impl::to_rep(r),(int)cnl::digits_v<T>,cnl::numbers::signedness_v<T>,false,(i128)cnl::_impl::to_rep(std::numeric_limits<T>::max()),(i128)cnl::_impl::to_rep(std::numeric_limits<T>::lowest())}; }
inline Out mkb(bool b){ return Out{1,0,0,false,b,0,0}; }
struct Kern { Out(*run)(long long,long long); const char*op; int d1,s1,d2,s2,sh; const char* desc; };
