import random,sys
random.seed(int(sys.argv[1])); N=int(sys.argv[2])
rtags=['cnl::nearest_rounding_tag','cnl::tie_to_pos_inf_rounding_tag','cnl::neg_inf_rounding_tag','cnl::native_rounding_tag']
reps=[('std::int8_t',7,1),('std::uint8_t',8,0),('std::int16_t',15,1),('std::uint16_t',16,0),('std::int32_t',31,1),('std::uint32_t',32,0),('std::int64_t',63,1)]
print('#include "h09.h"')
ks=[]
for i in range(N):
    r1=random.choice(reps); r2=random.choice(reps); t=random.randrange(4)
    e1=random.choice([-20,-12,-8,-4,-3,-2,-1,0,1,2,5]); e2=e1+random.choice([-3,-1,0,1,1,2,2,3,4,7,8,12])
    form=random.choice(['wrapped','convert'])
    if form=='wrapped':
        A=f'cnl::scaled_integer<cnl::rounding_integer<{r1[0]},{rtags[t]}>,cnl::power<{e1}>>'; B=f'cnl::scaled_integer<cnl::rounding_integer<{r2[0]},{rtags[t]}>,cnl::power<{e2}>>'
        body=f'A a=deep<A>(x); B b=static_cast<B>(a); return Out{{deepval(b)}};'
    else:
        A=f'cnl::scaled_integer<{r1[0]},cnl::power<{e1}>>'; B=f'cnl::scaled_integer<{r2[0]},cnl::power<{e2}>>'
        body=f'A a=deep<A>(x); B b=cnl::convert<{rtags[t]},B>{{}}(a); return Out{{deepval(b)}};'
    print(f'namespace k{i} {{ using A={A}; using B={B}; Out run(long long x){{ {body} }} }}')
    ks.append((i,r1,e1,r2,e2,t,f'{form} {r1[0]} e{e1} -> {r2[0]} e{e2} tag{t}'))
print('Kern kerns[]={')
for (i,r1,e1,r2,e2,t,desc) in ks: print(f' {{k{i}::run,{r1[1]},{r1[2]},{e1},{r2[1]},{r2[2]},{e2},{t},"{desc}"}},')
print('}; int nkerns=%d;'%len(ks))
