#!/bin/bash
# usage: build11.sh seed N ; probes failing kernels, removes them, builds binary r11
python3 gen11.py $1 $2 > k11.cpp
for it in 1 2 3 4 5 6 7 8; do
  timeout 900 g++ -std=gnu++20 -O1 -g -I/repo/include -DCNL_DEBUG -fsanitize=address,undefined -fsanitize-undefined-trap-on-error -fmax-errors=0 -c k11.cpp -o k11.o 2> err.txt && break
  grep -oE "^k11.cpp:[0-9]+" err.txt | sort -u | cut -d: -f2 > bad.txt
  echo "iteration $it: $(wc -l < bad.txt) bad lines"
  python3 - <<'PY'
import re
bad=set(int(l) for l in open('bad.txt'))
lines=open('k11.cpp').read().split('\n')
badk=set()
for b in bad:
    m=re.match(r'namespace k(\d+) ',lines[b-1])
    if m: badk.add(m.group(1)); print('NOINST',re.search(r'using A=(.*?); using B=(.*?); Out',lines[b-1]).groups(), re.search(r'return (.*?);',lines[b-1]).group(1))
out=[l for i,l in enumerate(lines) if not (re.match(r'namespace k(\d+) ',l) and re.match(r'namespace k(\d+) ',l).group(1) in badk) and not (re.match(r' \{k(\d+)::run',l) and re.match(r' \{k(\d+)::run',l).group(1) in badk)]
n=sum(1 for l in out if l.startswith(' {k'))
out=[re.sub(r'int nkerns=\d+','int nkerns=%d'%n,l) for l in out]
open('k11.cpp','w').write('\n'.join(out))
PY
done
g++ -std=gnu++20 -O1 -g -I/repo/include -DCNL_DEBUG -fsanitize=address,undefined -fsanitize-undefined-trap-on-error main11.cpp k11.o -o r11 2>&1 | grep error | head
